"""CLI of every check:  python -m xmc.run <ID> [--tier quick|thorough] [--replay FILE]

exit 0  property held on everything explored (known findings are printed and tolerated)
exit 1  a violation not listed in known_findings.json (a line `VIOLATION property=.. replay=..`)
exit 2  harness error (nondeterministic replay, crashed shard) - never a property verdict
"""
import argparse
import importlib
import json
import multiprocessing as mp
import os
import random
import subprocess
import sys
import time
import traceback

from . import REPO, VERIF
from .core import Rec, h64, jsonable

KNOWN = os.path.join(VERIF, "known_findings.json")

_MOD = None


def _load(pid):
    return importlib.import_module(f"xmc.checks.{pid.lower()}")


def _init(pid):
    global _MOD
    import warnings

    warnings.simplefilter("ignore")
    _MOD = _load(pid)


_HISTORY = []  # shards this worker process has executed so far (in order)


def _work(args):
    shard, tier, seed = args
    rec = Rec()
    rec.shard = shard
    try:
        _MOD.run_shard(shard, tier, seed, rec)
        for v in rec.viol:
            # what this process had executed before: needed to replay failures that depend on
            # state hidden inside the library (class attributes, module caches)
            v["worker_history"] = jsonable(list(_HISTORY))
        _HISTORY.append(shard)
        return ("ok", rec.dump())
    except BaseException as e:  # harness bug, not a verdict
        return ("err", f"shard {shard!r}: {type(e).__name__}: {e}\n{traceback.format_exc()}")


def _viol_key(v):
    return (v["cost"], len(json.dumps(v["case"])), json.dumps(v["case"], sort_keys=True))


def _tuplify(o):
    if isinstance(o, list):
        return tuple(_tuplify(x) for x in o)
    return o


def _replay_obs(mod, v, seed, tier="quick"):
    """re-execute one counterexample: first the single case on fresh objects; if that does not
    reproduce (the failure depends on what the shard did before, e.g. state leaking between
    calls on one Grid), the shard that produced it is re-run and the case picked out."""
    reset = getattr(mod, "reset", lambda: None)  # optional: restore argument objects a check shares between its cases
    rec = Rec()
    reset()
    mod.replay_case(v["case"], seed, rec)
    if not rec.viol and v.get("shard") is not None:
        try:
            rec2 = Rec()
            rec2.MAXVIOL = 10 ** 6
            reset()
            mod.run_shard(_tuplify(v["shard"]), v.get("tier", tier), seed, rec2)
            rec2.viol = [w for w in rec2.viol if w["sub"] == v["sub"] and w["cls"] == v["cls"] and w["case"] == v["case"]]
            for w in rec2.viol:
                w["note"] = (w.get("note", "") + " [reproduces only in the context of its shard: depends on earlier calls]").strip()
            if rec2.viol:
                rec = rec2
            elif v.get("worker_history"):
                # last resort: everything the worker process had executed before, in order
                reset()
                for sh in v["worker_history"]:
                    mod.run_shard(_tuplify(sh), v.get("tier", tier), seed, Rec())
                rec3 = Rec()
                rec3.MAXVIOL = 10 ** 6
                mod.run_shard(_tuplify(v["shard"]), v.get("tier", tier), seed, rec3)
                rec3.viol = [w for w in rec3.viol if w["sub"] == v["sub"] and w["cls"] == v["cls"] and w["case"] == v["case"]]
                for w in rec3.viol:
                    w["note"] = (w.get("note", "") + " [reproduces only after the shards its worker process had executed before: state hidden in the library]").strip()
                if rec3.viol:
                    rec = rec3
        except Exception:
            pass
    return sorted(
        (w["sub"], w["cls"], json.dumps(w["observed"], sort_keys=True)) for w in rec.viol
    ), rec


def load_known(pid):
    if not os.path.exists(KNOWN):
        return []
    with open(KNOWN) as f:
        data = json.load(f)
    return [k for k in data.get("findings", []) if k["property"] == pid]


def write_replay(pid, v, seed, tier):
    d = os.path.join(VERIF, "replays", pid)
    os.makedirs(d, exist_ok=True)
    hh = "%016x" % h64((v["sub"], v["cls"], v["case"]))
    path = os.path.join(d, hh + ".json")
    with open(path, "w") as f:
        json.dump(dict(property=pid, seed=seed, tier=tier, **v), f, indent=1, sort_keys=True)
    test = os.path.join(d, hh + "_test.py")
    with open(test, "w") as f:
        f.write(
            "# stand-alone replay of one counterexample (no explorer involved)\n"
            "import json, os, sys\n"
            f"sys.path.insert(0, {VERIF!r})\n"
            "from xmc.run import _replay_obs\n"
            f"from xmc.checks import {pid.lower()} as chk\n\n"
            f"def test_replay():\n"
            f"    v = json.load(open({path!r}))\n"
            "    obs, rec = _replay_obs(chk, v, v['seed'], v['tier'])\n"
            "    assert not rec.viol, rec.viol[0]\n\n"
            "if __name__ == '__main__':\n    test_replay()\n"
        )
    return path


def main(argv=None):
    ap = argparse.ArgumentParser()
    ap.add_argument("pid")
    ap.add_argument("--tier", default=os.environ.get("VERIF_TIER", "quick"))
    ap.add_argument("--replay")
    ap.add_argument("--workers", type=int, default=int(os.environ.get("XMC_WORKERS", "16")))
    ap.add_argument("--no-evidence", action="store_true")
    a = ap.parse_args(argv)
    pid = a.pid.upper()
    tier = a.tier if a.tier in ("quick", "thorough") else "quick"
    try:
        seed = int(os.environ.get("VERIF_SEED", "0"))
    except ValueError:
        seed = 0
    mod = _load(pid)

    if a.replay:
        with open(a.replay) as f:
            v = json.load(f)
        obs, rec = _replay_obs(mod, v, v.get("seed", seed), v.get("tier", tier))
        for w in rec.viol:
            print(json.dumps(dict(sub=w["sub"], cls=w["cls"], expected=w["expected"], observed=w["observed"], note=w["note"][:400]), indent=1))
        if rec.viol:
            print(f"VIOLATION property={pid} replay={a.replay}")
            return 1
        print(f"replay of {a.replay}: no violation on this tree")
        return 0

    t0 = time.time()
    shards = list(mod.shards(tier, seed))
    total = Rec()
    errors = []
    nshards = 0
    rnd = 0
    pool = None
    while shards:
        random.Random(seed + rnd).shuffle(shards)
        nshards += len(shards)
        jobs = [(s, tier, seed) for s in shards]
        if a.workers <= 1:
            if rnd == 0:
                _init(pid)
            results = map(_work, jobs)
        else:
            if pool is None:
                pool = mp.get_context("fork").Pool(a.workers, initializer=_init, initargs=(pid,))
            results = pool.imap_unordered(_work, jobs, chunksize=1)
        for kind, payload in results:
            if kind == "ok":
                total.absorb(payload)
            else:
                errors.append(payload)
        rnd += 1
        shards = []
        if hasattr(mod, "next_round") and not errors:
            shards = list(mod.next_round(total, tier, seed, rnd))
    if pool is not None:
        pool.close()
        pool.join()
    extra = {}
    if hasattr(mod, "finalize"):
        extra = mod.finalize(total, tier, seed) or {}
    if errors:
        print("HARNESS-ERROR: %d shard(s) crashed" % len(errors))
        print(errors[0][:3000])
        return 2

    # ---- triage: known findings vs. new violations -----------------------------
    known = load_known(pid)
    matched = {}
    fresh = []
    for v in total.viol:
        k = next((k for k in known if v["sub"] in (k["sub"] if isinstance(k["sub"], list) else [k["sub"]]) and k["cls"] == v["cls"]), None)
        if k is not None:
            matched.setdefault(k["id"], (k, 0))
            matched[k["id"]] = (k, matched[k["id"]][1] + 1)
        else:
            fresh.append(v)
    fresh.sort(key=_viol_key)
    for kid, (k, n) in sorted(matched.items()):
        print(f"KNOWN-FINDING: property={pid} {k['what']} [id={kid} cls={k['cls']} seen={n}]")

    rc = 0
    replay_path = None
    if fresh:
        # determinism discipline: a counterexample is replayed twice, each time in a fresh
        # interpreter (single case on fresh objects; if the failure needs what its shard did before -
        # state leaking between calls or hidden in the library - the shard is re-run).  Both replays
        # must reproduce it with the same observation.  Candidates are the cheapest counterexample of
        # each violation class, cheapest first; one that does not replay identically is never reported
        # (e.g. an outcome that depends on task names dask derives per process) and the next class is
        # tried; if none replays, the run ends as a harness error, not as a verdict.
        cands, seen_cls = [], set()
        for w in fresh:
            if (w["sub"], w["cls"]) not in seen_cls:
                seen_cls.add((w["sub"], w["cls"]))
                cands.append(w)
        env = dict(os.environ, VERIF_SEED=str(seed))
        v = None
        for w in cands[:6]:
            replay_path = write_replay(pid, w, seed, tier)
            outs = []
            for _ in range(2):
                p = subprocess.run(
                    [sys.executable, "-m", "xmc.run", pid, "--replay", replay_path],
                    cwd=VERIF, env=env, capture_output=True, text=True,
                )
                outs.append((p.returncode, [l for l in p.stdout.splitlines() if l.startswith(' "observed"') or l.startswith(' "cls"')]))
            if outs[0][0] == 1 and outs[0] == outs[1]:
                v = w
                break
            print(f"(counterexample of class {w['sub']}/{w['cls']} does not replay identically in fresh processes (rc={outs[0][0]},{outs[1][0]}): not reported)")
            try:
                os.remove(replay_path)
            except OSError:
                pass
        if v is None:
            print("HARNESS-ERROR: no counterexample replays deterministically in fresh processes")
            print(json.dumps(cands[0], indent=1)[:2000])
            print(p.stdout[-1500:], p.stderr[-1500:])
            return 2
        classes = sorted({(w["sub"], w["cls"]) for w in fresh})
        print(f"{len(fresh)} recorded violation(s) in {len(classes)} class(es): "
              + "; ".join(f"{s}/{c}" for s, c in classes[:12]))
        print("first counterexample:", json.dumps(dict(sub=v["sub"], cls=v["cls"], case=v["case"], expected=v["expected"], observed=v["observed"]))[:1800])
        print(f"VIOLATION property={pid} replay={replay_path}")
        rc = 1

    wall = time.time() - t0
    cov = dict(
        evaluations=total.calls,
        cases=total.ncases,
        distinct_cases=len(total.keys),
        distinct_nontrivial=len(total.nontriv),
        rule=mod.RULE,
        samples=total.samples[:4],
        states=max(len(total.states), 0),
        transitions=total.transitions,
        traces_validated_against_impl=total.traces or total.ncases,  # every case is one real execution compared with the reference
        distinct_outcomes=len(total.outcomes),
        outcomes={str(k): v for k, v in list(total.outcomes.most_common(12))},
        detail={str(k): v for k, v in sorted(total.counters.items(), key=lambda kv: str(kv[0]))},
        space=getattr(mod, "SPACE", {}).get(tier, "") if isinstance(getattr(mod, "SPACE", None), dict) else getattr(mod, "SPACE", ""),
        bounds=getattr(mod, "BOUNDS", {}).get(tier, {}),
        cap_hit=total.cap_hit,
        exhaustive=not total.cap_hit,
        shards=nshards,
        rounds=rnd,
        known_findings_seen=sorted(matched),
        tree=REPO,
    )
    cov.update(jsonable(extra))
    if mod.LEVEL == "model_checking":
        cov["states"] = max(cov["states"], 1)
        cov["transitions"] = max(cov["transitions"], 1)
    ev = dict(
        property_id=pid,
        tier=tier,
        seed=seed,
        level=mod.LEVEL,
        coverage=cov,
        assumptions=list(mod.ASSUMPTIONS),
        wall_s=round(wall, 2),
        violations=len(fresh),
    )
    if not a.no_evidence:
        os.makedirs(os.path.join(VERIF, "evidence"), exist_ok=True)
        with open(os.path.join(VERIF, "evidence", pid + ".json"), "w") as f:
            json.dump(ev, f, indent=1, sort_keys=True)
    print(
        f"{pid} {tier} seed={seed}: cases={total.ncases} distinct={len(total.keys)} nontrivial={len(total.nontriv)} "
        f"xgcm_calls={total.calls} states={len(total.states)} transitions={total.transitions} "
        f"outcomes={len(total.outcomes)} known={len(matched)} new_violations={len(fresh)} wall={wall:.1f}s"
    )
    return rc


if __name__ == "__main__":
    sys.exit(main())
