"""Minimal pure-Python stand-in for the parts of numba that xgcm.transform uses."""
import re
import numpy as np
__version__ = "0.0-stub"
class _T:
    def __init__(self, name, dt): self.name=name; self.dtype=dt
    def __getitem__(self, item): return (self, 1)
float64=_T("float64",np.float64); float32=_T("float32",np.float32); boolean=_T("boolean",np.bool_)

def _parse(layout):
    ins, outs = layout.split("->")
    f=lambda s:[tuple(x for x in g.split(",") if x) for g in re.findall(r"\(([^)]*)\)", s)]
    return f(ins), f(outs)

def guvectorize(ftylist, layout, **kw):
    in_core, out_core = _parse(layout)
    assert len(out_core)==1
    def deco(pyfunc):
        def wrapper(*args):
            args=[np.asarray(a) for a in args]
            assert len(args)==len(in_core)
            # dtype dispatch: first signature whose float type can hold all float inputs
            fl=[a.dtype for a,c in zip(args,in_core) if a.dtype.kind=='f']
            dt=np.result_type(*fl) if fl else np.float64
            dt=np.float32 if dt==np.float32 else np.float64
            sizes={}
            loop_shapes=[]
            for a,c in zip(args,in_core):
                nc=len(c)
                if a.ndim<nc: raise ValueError("core dim missing")
                for name,sz in zip(c,a.shape[a.ndim-nc:]):
                    if sizes.setdefault(name,sz)!=sz: raise ValueError(f"core dim {name} mismatch")
                loop_shapes.append(a.shape[:a.ndim-nc])
            loop=np.broadcast_shapes(*loop_shapes)
            out_shape=loop+tuple(sizes[n] for n in out_core[0])
            out=np.empty(out_shape,dtype=dt)
            bargs=[]
            for a,c in zip(args,in_core):
                nc=len(c)
                a = a.astype(dt) if a.dtype.kind=='f' else a
                bargs.append(np.broadcast_to(a, loop+a.shape[a.ndim-nc:]))
            for idx in np.ndindex(*loop):
                call=[]
                for a,c in zip(bargs,in_core):
                    v=a[idx]
                    call.append(v.copy() if len(c) else v[()])
                o=out[idx]
                pyfunc(*call,o)
            return out
        wrapper.__name__=pyfunc.__name__
        wrapper.py_func=pyfunc
        return wrapper
    return deco
