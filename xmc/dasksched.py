"""Owning the dask task order: execute the (optimised) graph of a lazy result ourselves, the
explorer choosing which ready task runs next.  A non-default choice is a deviation."""
import numpy as np

from . import explorer


class Graph:
    def __init__(self, darr, optimize=True):
        import dask
        from dask._task_spec import convert_legacy_graph
        from dask.order import order as dorder

        if optimize:
            (darr,) = dask.optimize(darr)
        self.keys = darr.__dask_keys__()
        self.tasks = convert_legacy_graph(dict(darr.__dask_graph__()))
        self.deps = {k: set(v.dependencies) for k, v in self.tasks.items()}
        o = dorder(self.tasks)
        self.rank = o.get
        self.ntasks = len(self.tasks)

    def run(self):
        """one execution under the current explorer (choice 0 = dask's static order)"""
        cache, done = {}, set()
        tasks, deps = self.tasks, self.deps
        remaining = set(tasks)
        while remaining:
            ready = sorted((k for k in remaining if deps[k] <= done), key=self.rank)
            c = explorer.choose(len(ready), ("ready", len(ready))) if len(ready) > 1 else 0
            k = ready[c]
            t = tasks[k]
            cache[k] = t({d: cache[d] for d in t.dependencies})
            done.add(k)
            remaining.discard(k)
        return self._assemble(self.keys, cache)

    def _assemble(self, keys, cache):
        def rec(k):
            if isinstance(k, list):
                return [rec(x) for x in k]
            return np.asarray(cache[k])

        nested = rec(keys)
        if not isinstance(nested, list):
            return nested
        return np.block(nested)


class BuildMonitor:
    """counts graph executions between entering a Grid method and receiving its result"""

    def __init__(self):
        from dask.callbacks import Callback

        mon = self

        class C(Callback):
            def _start(self, dsk):
                mon.n += 1

        self.n = 0
        self.cb = C()

    def __enter__(self):
        self.n = 0
        self.cb.__enter__()
        return self

    def __exit__(self, *a):
        return self.cb.__exit__(*a)
