"""C03  Scalar operations are invariant to how the domain is cut into faces.

Geometric model: a global field is cut into Kx x Ky faces, each stored in an independent D4
orientation; the link table is derived from the geometry and the expected value of every
stencil input beyond a face edge is looked up in the undivided field.  All orientation
assignments are enumerated and filtered to those expressible in the face_connections format.
"""
import itertools
import warnings

import numpy as np
import xarray as xr

from ..core import exc_sig
from ..ref import topology as T
from ..ref import simple as S

PID = "C03"
LEVEL = "exploration"
TECHNIQUE = "bounded exhaustive enumeration of D4 orientation assignments of small face decompositions x ops x targets x rules, real Grid ops against a lookup in the undivided field"
RULE = (
    "case = (Kx,Ky,N,periodicity,orientation assignment,axis,op,target,rule,layout); non-trivial = at least one "
    "output cell uses a value from another face (the operated axis has a linked edge on some face and the shift pads)"
)
SPACE = {
    "quick": "domains 2x1,1x2,2x2 (N=2) and 2x1,1x2 (N=3) x 4 periodicities x all 8^K orientation assignments (expressible ones kept) x 2 axes x 4 ops x targets {left,right,outer,inner} (rotating) x rules {fill(v),extend,periodic} (rotating) x 4 layouts (rotating); 1x1 periodic self-linked",
    "thorough": "+ 3x1,1x3 (N=2,3), 2x2 (N=3), 3x2 (N=2, rotations+mirrors pruned junction-wise), full op x target product",
}
BOUNDS = {"quick": {"N": [2, 3], "K": "<=4"}, "thorough": {"N": [2, 3], "K": "<=6"}}
ASSUMPTIONS = [
    "global field is an injective non-monotonic integer labelling (distinguishes which cell was fetched and min from max); linear ops additionally exact by integrality",
    "only junctions expressible in the face_connections format are in scope (as the property says)",
]

OPS = ("diff", "interp", "min", "max")
TARGETS = ("left", "right", "outer", "inner")
RULES = (("fill", 2.5), ("extend", 0.0), ("periodic", 0.0), ("fill", -40.0))
LAYOUTS = (("face", "Y", "X"), ("t", "face", "Y", "X"), ("face", "t", "Y", "X"), ("Y", "X", "face"))
PERIODICITIES = ((False, False), (True, True), (True, False), (False, True))


def make_grid(K, N, table, rule, fv, percall=False, withz=False):
    """percall: the Grid keeps its default (periodic) rule; the rule under test is given with the call.
    withz: the grid has a third axis Z that no link mentions"""
    from xgcm import Grid

    lay = {"X": S.POS, "Y": S.POS}
    ns = {"X": N, "Y": N}
    if withz:
        lay["Z"] = ("center", "left")
        ns["Z"] = 2
        if isinstance(rule, dict):
            rule, fv = dict(rule, Z="extend"), dict(fv, Z=0.0)
    ds = S.make_ds(lay, ns, extra={"face": K, "t": 2})
    ds = ds.assign_coords(face=np.arange(K))
    with warnings.catch_warnings():
        warnings.simplefilter("ignore")
        if percall:
            return Grid(ds, coords=S.grid_coords(lay), face_connections={"face": table} if table is not None else None, autoparse_metadata=False)
        return Grid(ds, coords=S.grid_coords(lay), face_connections={"face": table} if table is not None else None,
                    periodic=False, boundary=rule, fill_value=fv, autoparse_metadata=False)


def global_field(W, H, seed):
    mult = (5, 7, 11)[seed % 3]
    return ((np.arange(W * H) * mult + 2 + seed) % (W * H)).astype(float).reshape(H, W) * 2 - 9


def expected(D, F, G, axis, op, target, rule, fv, exact=False):
    """exact: Python-integer arithmetic (object arrays) for 64-bit integer fields"""
    N, nf = D.N, D.nf

    def val(f, ip, jp):
        if 0 <= ip < N and 0 <= jp < N:
            return F[f, jp, ip]
        gl = D.glob(f, ip, jp)
        if gl is not None:
            return G[gl[1], gl[0]]
        if rule == "fill":
            return fv
        if rule == "extend":
            return F[f, min(max(jp, 0), N - 1), min(max(ip, 0), N - 1)]
        return F[f, jp % N, ip % N]

    pts = {"left": range(0, N), "right": range(1, N + 1), "outer": range(0, N + 1), "inner": range(1, N)}[target]
    fn = S._OPS[op]
    shape = (nf, N, len(pts)) if axis == "X" else (nf, len(pts), N)
    exp = np.empty(shape, dtype=object if exact else float)
    for f in range(nf):
        for o in range(N):
            for k, p in enumerate(pts):
                # output point p sits between cells p-1 and p along the axis
                if axis == "X":
                    exp[f, o, k] = fn(val(f, p - 1, o), val(f, p, o))
                else:
                    exp[f, k, o] = fn(val(f, o, p - 1), val(f, o, p))
    return exp


def run_case(rec, Kx, Ky, N, per, orient, axis, op, target, ri, li, seed, pre=None):
    case = dict(Kx=Kx, Ky=Ky, N=N, per=list(per), orient=list(orient), axis=axis, op=op, target=target, ri=ri, li=li)
    if pre is None:
        D = T.Domain(Kx, Ky, N, orient, per)
        table, ok, kinds = D.links()
        if not ok:
            return
    else:
        D, table, kinds = pre
    # per-axis rules: the operated axis gets RULES[ri], the other axis the next one with another fill value
    rule, fv = RULES[ri]
    other = "Y" if axis == "X" else "X"
    orule, ofv = RULES[(ri + 1) % len(RULES)]
    gb = {axis: rule, other: orule}
    gf = {axis: fv, other: ofv + 20.0}
    layout = LAYOUTS[li]
    G = global_field(D.W, D.H, seed)
    if (ri + li + len(op)) % 4 == 1:
        # a missing value in the field (on a face edge): it is data like any other, also under the fill rule
        G = G.copy()
        G[0, D.W - 1] = np.nan
    big = op != "interp" and (ri + li + len(op) + len(target)) % 5 == 2 and float(fv).is_integer() and float(ofv).is_integer()
    if big:
        # a field of 64-bit integers beyond 2**53 (cell identifiers, nanosecond time stamps): differences, minima and
        # maxima across junctions are exact
        G = (np.arange(D.W * D.H, dtype=np.int64).reshape(D.H, D.W) * 3 + 2 ** 55 + 1) * (1 if seed % 2 == 0 else -1)
    F = D.cut(G)
    pads = target != "inner"
    linked_on_axis = any(table[f].get(axis, (None, None)) != (None, None) for f in table)
    rec.case((Kx, Ky, N, per, orient, axis, op, target, ri, li), pads and linked_on_axis, sample=case)
    for kd in set(kinds):
        rec.counters["kind:%d%d%d" % (kd[0], int(kd[1]), int(kd[2]))] += 1
    if ri % 2:
        table = {f: dict(reversed(list(table[f].items()))) for f in reversed(list(table))}
    # the reverse flags as Python bools, numpy booleans or 0/1 (a table computed with numpy): the same topology
    table = T.respell_flags(table, ri + li + len(op))
    try:
        percall = (ri + li) % 2 == 1 or li == 3
        withz = (ri + li + len(op)) % 3 == 0
        g = make_grid(D.nf, N, table if any(table[f] for f in table) else None, gb, gf, percall=percall, withz=withz)
    except Exception as e:
        rec.violation("constructor", "raise:" + exc_sig(e), case, "a Grid", f"{type(e).__name__}: {e}"[:200])
        return
    if withz:
        # an earlier operation along the unlinked axis, on a field that has it: the horizontal operation that follows
        # (on a field without that dimension) is answered as if it came first
        try:
            with warnings.catch_warnings():
                warnings.simplefilter("ignore")
                g.diff(xr.DataArray(np.zeros((D.nf, 2, N, N)), dims=["face", "zc", "yc", "xc"]), "Z", boundary="extend")
            rec.counters["earlier-op-along-unlinked-axis"] += 1
        except Exception as e:
            rec.violation("op", "raise-along-unlinked-axis:" + exc_sig(e), case, "array", f"{type(e).__name__}: {e}"[:200])
            return
    if (ri + li + len(target)) % 4 == 2:
        # an earlier call on this Grid that is refused (an unknown boundary word, inside cumsum's own padding): the
        # operation that follows is answered as if it came first
        try:
            with warnings.catch_warnings():
                warnings.simplefilter("ignore")
                g.cumsum(xr.DataArray(np.zeros((D.nf, N, N)), dims=["face", "yc", "xc"]), axis, to="left", boundary="no-such-rule")
            rec.counters["unknown-boundary-word-accepted-by-cumsum"] += 1
        except Exception:
            rec.counters["earlier-refused-call"] += 1
    da = xr.DataArray(F, dims=["face", "yc", "xc"])
    if "t" in layout:
        da = xr.concat([da, -da + 3], dim="t")
    dn = {"X": "xc", "Y": "yc", "face": "face", "t": "t"}
    da = da.transpose(*[dn[d] for d in layout])
    try:
        r = getattr(g, op)(da, axis, to=target, boundary=dict(gb), fill_value=dict(gf)) if percall else getattr(g, op)(da, axis, to=target)
    except Exception as e:
        rec.violation("op", "raise:" + exc_sig(e), case, "array", f"{type(e).__name__}: {e}"[:200])
        return
    newdim = S.dimname(axis, target)
    edims = [newdim if d == dn[axis] else d for d in da.dims]
    if list(r.dims) != edims:
        rec.violation("op", "dims", case, edims, list(r.dims))
        return
    exp = expected(D, F, G, axis, op, target, rule, fv)
    if big:
        exp = expected(D, F.astype(object), G.astype(object), axis, op, target, rule, int(fv), exact=True)
    canon = ["face", "yc" if axis == "X" else newdim, newdim if axis == "X" else "xc"]
    got = r.isel(t=0).transpose(*canon).values if "t" in layout else r.transpose(*canon).values
    if big:
        if got.shape != exp.shape or [int(x) for x in np.asarray(got).ravel()] != [int(x) for x in exp.ravel()]:
            rec.violation("op", f"values:{op}:int64-beyond-2**53", case, exp.astype(float), np.asarray(got, dtype=float))
        return
    if got.shape != exp.shape or not np.array_equal(got, exp, equal_nan=True):
        rec.violation("op", f"values:{op}", case, exp, got)
        return
    if "t" in layout:
        F2 = -F + 3
        exp2 = expected(D, F2, -G + 3, axis, op, target, rule, fv)
        got2 = r.isel(t=1).transpose(*canon).values
        if not np.array_equal(got2, exp2, equal_nan=True):
            rec.violation("op", f"values-t1:{op}", case, exp2, got2)


def domains(tier):
    d = [(2, 1, 2), (1, 2, 2), (2, 2, 2), (2, 1, 3), (1, 2, 3), (1, 1, 2), (1, 1, 3)]
    if tier == "thorough":
        d += [(3, 1, 2), (1, 3, 2), (3, 1, 3), (2, 2, 3), (1, 3, 3)]
    return d


def shards(tier, seed):
    sh = []
    for (Kx, Ky, N) in domains(tier):
        for per in PERIODICITIES:
            if Kx * Ky == 1 and per == (False, False):
                continue
            first = list(T.D4)
            for o0 in first:
                sh.append((Kx, Ky, N, per, o0))
    if tier == "thorough":
        for per in PERIODICITIES[:2]:
            for o0 in T.D4:
                for o1 in T.D4:
                    sh.append((3, 2, 2, per, o0, o1))
    return sh


def run_shard(shard, tier, seed, rec):
    Kx, Ky, N, per = shard[:4]
    fixed = shard[4:]
    K = Kx * Ky
    idx = 0
    if K == 6:
        gen = pruned_assignments(Kx, Ky, N, per, fixed)
    else:
        gen = (fixed + rest for rest in itertools.product(T.D4, repeat=K - len(fixed)))
    for orient in gen:
        D = T.Domain(Kx, Ky, N, orient, per)
        table, ok, kinds = D.links()
        if not ok:
            rec.counters["inexpressible"] += 1
            continue
        rec.counters["expressible"] += 1
        idx += 1
        for axis in ("X", "Y"):
            if tier == "thorough":
                combos = [(op, tg) for op in OPS for tg in TARGETS]
            else:
                # every op with two targets, rotating so that all 16 (op,target) pairs occur
                combos = [(op, TARGETS[(oi + idx + k) % 4]) for oi, op in enumerate(OPS) for k in (0, 2)]
            for ci, (op, tg) in enumerate(combos):
                ri = (idx + ci) % len(RULES)
                li = (idx * 3 + ci) % len(LAYOUTS)
                run_case(rec, Kx, Ky, N, per, orient, axis, op, tg, ri, li, seed, pre=(D, table, kinds))


def pruned_assignments(Kx, Ky, N, per, fixed):
    """3x2: extend face by face, dropping partial assignments as soon as a junction between two
    already-oriented faces is inexpressible (8^6 is never materialised)."""
    K = Kx * Ky

    def ok_partial(orient):
        # check junctions among assigned faces only: build a domain where unassigned faces get
        # 'id' and look only at links between assigned faces
        k = len(orient)
        D = T.Domain(Kx, Ky, N, tuple(orient) + ("id",) * (K - k), per)
        Nn = D.N
        for f in range(k):
            for ax, (e, tdir) in {"X": ((1, 0), (0, 1)), "Y": ((0, 1), (1, 0))}.items():
                for side in (0, 1):
                    cell0 = ((-1 if side == 0 else Nn, 0) if ax == "X" else (0, -1 if side == 0 else Nn))
                    g0 = D.glob(f, *cell0)
                    if g0 is None:
                        continue
                    g = D.face_of(*g0)
                    if g >= k:
                        continue
                    R = D.orient[g].T @ D.orient[f]
                    d = R @ np.array(e)
                    t = R @ np.array(tdir)
                    nax = "X" if d[0] != 0 else "Y"
                    rev = bool(d.sum() < 0)
                    need = -1 if (nax != ax and not rev) else 1
                    if int(t.sum()) != need:
                        return False
        return True

    def rec_(orient):
        if len(orient) == K:
            yield tuple(orient)
            return
        for o in T.D4:
            nxt = orient + [o]
            if ok_partial(nxt):
                yield from rec_(nxt)

    yield from rec_(list(fixed))


def replay_case(case, seed, rec):
    run_case(rec, case["Kx"], case["Ky"], case["N"], tuple(case["per"]), tuple(case["orient"]), case["axis"],
             case["op"], case["target"], case["ri"], case["li"], seed)
