"""C17  Only reciprocal face-connection tables are accepted.

All 625 tables over 2 faces x 1 axis; every table obtained by one and by two slot edits (any other
content of a slot: drop, add, change face / axis / flag) or a side swap from consistent tables over
2 faces x 2 axes and 3 faces; every consistent structured table up to 6 faces; two face dimensions;
a face dimension absent from the dataset.  Oracle: the reciprocity predicate of the statement;
accepted <=> predicate.
"""
import itertools
import warnings

import numpy as np
import xarray as xr

from ..core import exc_sig
from ..ref import topology as T
from .c05 import representative_tables, structured_tables, tab_from_json, tab_json

PID = "C17"
LEVEL = "exploration"
TECHNIQUE = "bounded exhaustive enumeration of link tables (all 625 small ones, all 1- and 2-edit neighbours of consistent ones), real Grid construction against the reciprocity predicate"
RULE = "case = link table (+ dataset variant); non-trivial = the table has at least one link"
SPACE = {
    "quick": "625 tables (2 faces, 1 axis); all single edits and all pairs of edits of 6 consistent tables (2 faces x 2 axes; 3 faces x 2 axes); 72 structured consistent tables of 3-6 faces and 16 representative ones; 2 face dimensions; absent face dimension; unknown axis / face; surplus rows keyed by an absent face with every one-link content; 5 datasets with other face labels x (130 tables as they are and relabelled)",
    "thorough": "pairs of edits on 14 base tables",
}
BOUNDS = {"quick": {"bases": 6}, "thorough": {"bases": 14}}
ASSUMPTIONS = [
    "rejection = any exception raised by the constructor; acceptance = a Grid is returned",
    "a face exists when it is a label of the dataset's face coordinate (0..K-1, and the label sets [1,2], [10,20], [1,0], [0,2], [2,1]); axes X and Y", "a table row without any link is not classified when its face is absent",
]


def respell(table, mode):
    """the reverse flag spelled as bool (0), int (1) or numpy bool (2); mode 3: every link triple and every (left, right)
    pair as a list instead of a tuple (what a table looks like after a JSON / YAML round trip)"""
    if mode == 3:
        return {f: {A: [None if l is None else [l[0], l[1], l[2]] for l in pair] for A, pair in ax.items()} for f, ax in table.items()}
    conv = {0: bool, 1: int, 2: np.bool_}[mode]
    return {f: {A: tuple(None if l is None else (l[0], l[1], conv(l[2])) for l in pair) for A, pair in ax.items()} for f, ax in table.items()}


def make(K, table, axes=("X", "Y"), facedim="face", extra_fc=None, ds_variant=None, labels=None):
    from xgcm import Grid

    N = 2
    coords = {"x": ("x", np.arange(N)), "xl": ("xl", np.arange(N) - 0.5), "y": ("y", np.arange(N)), "yl": ("yl", np.arange(N) - 0.5),
              "face": ("face", np.arange(K) if labels is None else np.array(labels))}
    ds = xr.Dataset(coords=coords)
    if ds_variant == "no-face-coordinate":
        # the face dimension exists (a data variable has it) but carries no coordinate: the faces are 0..K-1
        ds["per_face"] = (("face",), np.zeros(K))
        ds = ds.drop_vars("face")
    elif ds_variant == "scalar-coordinate":
        ds = ds.isel(face=0)  # `face` survives as a scalar coordinate, not as a dimension
    elif ds_variant == "data-variable":
        ds = ds.isel(face=0, drop=True)
        # a variable called `face` holding the face numbers (a mask on the horizontal grid), but no such dimension
        ds["face"] = (("y", "x"), (np.arange(N * N) % max(K, 1)).reshape(N, N))
    gc = {"X": {"center": "x", "left": "xl"}, "Y": {"center": "y", "left": "yl"}}
    gc = {a: gc[a] for a in axes}
    fc = {facedim: table}
    if extra_fc:
        fc.update(extra_fc)
    if ds_variant == "mapping-proxy":
        # the table handed over as a read-only mapping (not a dict subclass), its rows too
        import types

        fc = types.MappingProxyType({facedim: types.MappingProxyType({f: types.MappingProxyType(dict(ax)) for f, ax in table.items()})})
    with warnings.catch_warnings():
        warnings.simplefilter("ignore")
        return Grid(ds, coords=gc, face_connections=fc, periodic=False, autoparse_metadata=False)


def predicate(K, table, axes, labels=None):
    exists = (lambda f: isinstance(f, int) and 0 <= f < K) if labels is None else (lambda f: f in labels)
    for f, ax in table.items():
        if not exists(f):
            return False
        for A, pair in ax.items():
            if A not in axes:
                return False
            for link in pair:
                if link is None:
                    continue
                g, B, rev = link
                if not exists(g) or B not in axes:
                    return False
    return T.reciprocal(table)


def check(rec, K, table, axes=("X", "Y"), sub="table", variant=None, labels=None):
    case = dict(K=K, table=tab_json(table), axes=list(axes), variant=variant, labels=labels)
    present = (lambda f: 0 <= f < K) if labels is None else (lambda f: f in labels)
    if any(not present(f) and not any(l for pair in ax.values() for l in pair) for f, ax in table.items() if isinstance(f, int)):
        rec.counters["skipped:link-free row of an absent face (not classified)"] += 1
        return
    want = predicate(K, table, axes, labels) and variant in (None, "flags-int", "flags-npbool", "links-as-lists", "no-face-coordinate", "mapping-proxy")
    nlinks = sum(1 for f in table for A in table[f] for l in table[f][A] if l)
    rec.case((K, tab_json(table), axes, variant, None if labels is None else tuple(labels)), nlinks > 0, sample=case if nlinks >= 2 else None)
    rec.outcomes["expected-accept" if want else "expected-reject"] += 1
    try:
        if variant == "two-face-dims":
            make(K, table, axes, extra_fc={"face2": {0: {}}})
        elif variant == "absent-face-dim":
            make(K, table, axes, facedim="tile")
        elif variant in ("scalar-coordinate", "data-variable", "no-face-coordinate", "mapping-proxy"):
            make(K, table, axes, ds_variant=variant)
        elif variant in ("flags-int", "flags-npbool", "links-as-lists"):
            make(K, respell(table, {"flags-int": 1, "flags-npbool": 2, "links-as-lists": 3}[variant]), axes)
        else:
            make(K, table, axes, labels=labels)
        ok = True
    except Exception as e:
        ok = False
        err = e
    if ok and not want:
        cls = "non-reciprocal-accepted" if variant in (None, "flags-int", "flags-npbool", "links-as-lists", "no-face-coordinate", "mapping-proxy") else f"{variant}-accepted"
        rec.violation(sub, cls, case, "raise", "Grid returned")
    elif not ok and want:
        rec.violation(sub, "reciprocal-rejected:" + exc_sig(err), case, "Grid", f"{type(err).__name__}: {err}"[:200])


def all_625():
    opts = [None] + [(g, "X", r) for g in (0, 1) for r in (False, True)]
    for a, b, c, d in itertools.product(opts, repeat=4):
        yield {0: {"X": (a, b)}, 1: {"X": (c, d)}}


def base_tables(tier):
    out = []
    # 2 faces x 2 axes
    out.append((2, T.table_of([((0, "X", 1), (1, "X", 0)), ((0, "Y", 1), (1, "Y", 0))], 2)))
    out.append((2, T.table_of([((0, "X", 1), (1, "Y", 0)), ((0, "Y", 0), (1, "X", 1))], 2)))
    out.append((2, T.table_of([((0, "X", 1), (1, "X", 1)), ((0, "X", 0), (0, "X", 0))], 2)))
    # 3 faces
    out.append((3, T.table_of([((0, "X", 1), (1, "X", 0)), ((1, "X", 1), (2, "Y", 0)), ((2, "Y", 1), (0, "X", 0))], 3)))
    out.append((3, T.table_of([((0, "Y", 1), (1, "Y", 1)), ((1, "X", 0), (2, "X", 1))], 3)))
    out.append((3, T.table_of([((0, "X", 1), (0, "X", 0)), ((1, "Y", 1), (2, "X", 1))], 3)))
    if tier == "thorough":
        for K, t in structured_tables()[::9][:8]:
            if K <= 4:
                out.append((K, t))
    return out[: BOUNDS[tier]["bases"]]


def slot_values(K):
    return [None] + [(g, A, r) for g in range(K) for A in ("X", "Y") for r in (False, True)]


def full(table, K):
    """normalise: every face has both axes"""
    return {f: {A: tuple(table.get(f, {}).get(A, (None, None))) for A in ("X", "Y")} for f in range(K)}


def edits(table, K):
    """all single edits: replace the content of one slot by any other value; swap the sides of one entry"""
    t = full(table, K)
    vals = slot_values(K)
    for f in range(K):
        for A in ("X", "Y"):
            for side in (0, 1):
                for v in vals:
                    if v != t[f][A][side]:
                        n = {g: dict(ax) for g, ax in t.items()}
                        pair = list(n[f][A])
                        pair[side] = v
                        n[f][A] = tuple(pair)
                        yield n
            if t[f][A][0] != t[f][A][1]:
                n = {g: dict(ax) for g, ax in t.items()}
                n[f][A] = (t[f][A][1], t[f][A][0])
                yield n


def shards(tier, seed):
    sh = [("625", k) for k in range(5)]
    bases = base_tables(tier)
    for bi in range(len(bases)):
        sh.append(("edit1", bi))
        K = bases[bi][0]
        n1 = len(list(edits(bases[bi][1], K)))
        step = 12
        sh += [("edit2", bi, lo, min(lo + step, n1)) for lo in range(0, n1, step)]
    sh.append(("consistent",))
    sh.append(("variants",))
    return sh


def run_shard(shard, tier, seed, rec):
    k = shard[0]
    if k == "625":
        for i, t in enumerate(all_625()):
            if i % 5 == shard[1]:
                check(rec, 2, t, axes=("X",), sub="two-faces-one-axis")
                if i % 25 == shard[1]:
                    check(rec, 2, t, axes=("X", "Y"), sub="two-faces-one-axis")
    elif k == "edit1":
        K, base = base_tables(tier)[shard[1]]
        check(rec, K, full(base, K), sub="base")
        for t in edits(base, K):
            check(rec, K, t, sub="one-edit")
    elif k == "edit2":
        _, bi, lo, hi = shard
        K, base = base_tables(tier)[bi]
        firsts = list(edits(base, K))
        for t1 in firsts[lo:hi]:
            for t2 in edits(t1, K):
                check(rec, K, t2, sub="two-edits")
    elif k == "consistent":
        for K, t in structured_tables():
            check(rec, K, t, sub="structured")
        for t in representative_tables():
            check(rec, 2, t, sub="structured")
    else:
        base = base_tables(tier)[0][1]
        check(rec, 2, base, variant="two-face-dims", sub="variants")
        check(rec, 2, base, variant="absent-face-dim", sub="variants")
        open_table = {0: {"X": (None, None)}}
        self_periodic = {0: {"X": ((0, "X", False), (0, "X", False))}}
        for t_, K_ in ((base, 2), (open_table, 1), (self_periodic, 1), (open_table, 2)):
            check(rec, K_, t_, variant="scalar-coordinate", sub="variants")
            check(rec, K_, t_, variant="data-variable", sub="variants")
            check(rec, K_, t_, variant="absent-face-dim", sub="variants")
        # the reverse flag given as 0/1 or as numpy booleans: same verdicts as with True/False
        for K, t in structured_tables():
            check(rec, K, t, sub="flag-spelling", variant="flags-int")
            check(rec, K, t, sub="flag-spelling", variant="flags-npbool")
            check(rec, K, t, sub="flag-spelling", variant="links-as-lists")
        for bi, (K, b) in enumerate(base_tables(tier)):
            for ei, t in enumerate(edits(b, K)):
                check(rec, K, t, sub="flag-spelling", variant=("flags-int", "flags-npbool", "links-as-lists")[(bi + ei) % 3])
        # a surplus row keyed by a face the dataset does not have, holding any one link (to any face, reciprocated or not)
        for K, b in base_tables(tier):
            fb = full(b, K)
            for A in ("X", "Y"):
                for side in (0, 1):
                    for v in slot_values(K + 1):
                        if v is None:
                            continue  # a surplus row without links is not classified by the statement
                        pair = [None, None]
                        pair[side] = v
                        t = dict(fb)
                        t[K] = {A: tuple(pair)}
                        check(rec, K, t, sub="surplus-row")
                        if v[0] < K:
                            # ... also when the face it points to links back to it
                            t2 = {f: dict(ax) for f, ax in t.items()}
                            g, B, rev = v
                            back_side = side if rev else 1 - side
                            bp = list(t2[g][B])
                            bp[back_side] = (K, A, rev)
                            t2[g][B] = tuple(bp)
                            check(rec, K, t2, sub="surplus-row")
        # a face dimension without coordinate: tables with fewer rows than faces (unconnected faces left out) and with more
        ring3 = T.table_of([((0, "X", 1), (1, "X", 0)), ((1, "X", 1), (2, "X", 0))], 3)
        skip1 = {0: {"X": (None, (2, "X", False))}, 2: {"X": ((0, "X", False), None)}}
        for K_, t_ in ((2, ring3), (3, ring3), (4, ring3), (3, skip1), (2, skip1), (4, skip1)):
            check(rec, K_, t_, sub="no-face-coordinate", variant="no-face-coordinate")
        for i, t in enumerate(all_625()):
            if i % 5 == 1:
                check(rec, 2, t, axes=("X",), sub="mapping-types", variant="mapping-proxy")
            if i % 5 == 0:
                check(rec, 2, t, axes=("X",), sub="no-face-coordinate", variant="no-face-coordinate")
                check(rec, 3, t, axes=("X",), sub="no-face-coordinate", variant="no-face-coordinate")
        # datasets whose face labels are not 0..K-1: a face exists when it is one of the labels
        for labels in ([1, 2], [10, 20], [1, 0], [0, 2], [2, 1]):
            m = {0: labels[0], 1: labels[1]}
            for i, t in enumerate(all_625()):
                if i % 5 == 0 or i < 30:
                    # the table as it is, on the relabelled dataset
                    check(rec, 2, t, axes=("X",), sub="face-labels", labels=labels)
                    # the table relabelled with the dataset
                    tr = {m[f]: {A: tuple(None if l is None else (m[l[0]], l[1], l[2]) for l in pair) for A, pair in ax.items()} for f, ax in t.items()}
                    check(rec, 2, tr, axes=("X",), sub="face-labels", labels=labels)
        # unknown axis / unknown face in an otherwise reciprocal table
        check(rec, 2, {0: {"Z": (None, (1, "Z", False))}, 1: {"Z": ((0, "Z", False), None)}}, sub="variants")
        check(rec, 2, {0: {"X": (None, (5, "X", False))}, 5: {"X": ((0, "X", False), None)}}, sub="variants")
        check(rec, 2, {0: {"X": (None, (1, "X", False))}, 1: {"X": ((0, "X", False), None)}}, axes=("X",), sub="variants")


def replay_case(case, seed, rec):
    check(rec, case["K"], tab_from_json(case["table"]), axes=tuple(case["axes"]), variant=case.get("variant"), labels=case.get("labels"))
