"""C05  Halo cells across every kind of face link come from the documented cell.

Tables are built from pairings of edge slots (not from geometry) so that all 8 link kinds occur
in all combinations, self links included.  Oracle: the index-level link rule of the statement
(xmc.ref.topology.ref_halo); corner cells (new along two axes) are excluded, as the property says.
"""
import itertools
import warnings

import numpy as np
import xarray as xr

from ..core import exc_sig, chunked
from ..ref import topology as T

PID = "C05"
LEVEL = "exploration"
TECHNIQUE = "bounded exhaustive enumeration of slot-matching link tables x inputs x widths x rules, real xgcm.padding.pad against an index-level link rule"
RULE = (
    "case = (table, N, axis widths, rule, input kind, layout); non-trivial = at least one halo cell is taken from "
    "another face (or from the face itself through a self link); counted separately: partner component used, sign flipped"
)
SPACE = {
    "quick": "all 764 tables of 2 faces without same-slot links + all tables with exactly one same-slot link (<=2 other links) x 2 axes x {scalar,u,v} x a rotating schedule covering every (width pair in {0..min(3,N)}^2, rule) combination, N in {2,3}; full width x rule product on one table per link kind; structured chains/rings of 3-6 faces using every kind; 5 dim layouts",
    "thorough": "all 7193 two-face tables; 3-face matchings with <= 2 links; full 2-axis width product (N=3) on representative tables; N=4",
}
BOUNDS = {"quick": {"N": [2, 3], "faces": "2..6"}, "thorough": {"N": [2, 3, 4], "faces": "2..6"}}
ASSUMPTIONS = [
    "padding copies cells without reading them: injective labels (disjoint ranges and opposite signs per component) identify source cell, component and sign for all data values",
    "corner cells excluded (C12)",
    "widths <= min(3, N) as in the property",
]

RULES = (("fill", 7.0), ("extend", 0.0), ("periodic", 0.0), ("fill", 0.0))
LAYOUTS = (
    ("face", "Y", "X"), ("t", "face", "Y", "X"), ("face", "t", "Y", "X"), ("Y", "face", "X"), ("Y", "X", "face"),
)


def reorder(table, order):
    """the same links listed in another order (insertion order of faces and of axes)"""
    keys = list(table)
    if order == 1:
        keys = keys[::-1]
    elif order == 2:
        keys = keys[1:] + keys[:1]
    out = {}
    for f in keys:
        ax = list(table[f])
        if order:
            ax = ax[::-1]
        out[f] = {A: table[f][A] for A in ax}
    return out


def make_grid(K, N, table, rule="extend", fv=4.0, order=0):
    from xgcm import Grid

    table = reorder(table, order)
    # the reverse flags as Python bools, numpy booleans or 0/1, by listing order: the same topology
    table = T.respell_flags(table, order)

    ds = xr.Dataset(
        coords={
            "x": ("x", np.arange(N)), "xl": ("xl", np.arange(N) - 0.5),
            "y": ("y", np.arange(N)), "yl": ("yl", np.arange(N) - 0.5),
            "face": ("face", np.arange(K)), "t": ("t", np.arange(2)),
        }
    )
    coords = {"X": {"center": "x", "left": "xl"}, "Y": {"center": "y", "left": "yl"}}
    with warnings.catch_warnings():
        warnings.simplefilter("ignore")
        return Grid(ds, coords=coords, face_connections={"face": table}, periodic=False,
                    boundary=rule, fill_value=fv, autoparse_metadata=False)


SENTINEL = 7654321.125


def fields(K, N, seed):
    S = (np.arange(K * N * N, dtype=float).reshape(K, N, N) + 1 + seed % 7) * (1 + seed % 3)
    if seed % 2:
        S = S[:, ::-1, :].copy()
    U = S * 10 + 0.25
    V = -(S * 100 + 0.5)
    return {"s": S, "X": U, "Y": V}


DIMS = {"s": {"X": "x", "Y": "y"}, "X": {"X": "xl", "Y": "y"}, "Y": {"X": "x", "Y": "yl"}}


def to_da(arr, comp, layout):
    """arr[face, y, x] -> DataArray with the requested layout (t broadcast with distinct values)"""
    dims = []
    a = arr
    base_dims = ["face", DIMS[comp]["Y"], DIMS[comp]["X"]]
    da = xr.DataArray(a, dims=base_dims)
    if "t" in layout:
        da = xr.concat([da, da * 2 + 1000], dim="t")
    order = [("face" if d == "face" else "t" if d == "t" else DIMS[comp][d]) for d in layout]
    return da.transpose(*order)


def all_width_rule(N):
    w = range(0, min(3, N) + 1)
    return [((lo, hi), r) for lo in w for hi in w for r in range(len(RULES)) if (lo, hi) != (0, 0)]


OTHERW = (((0, 0)), ((1, 0)), ((0, 2)), ((2, 1)))


def check_pad(rec, K, N, table, axis, comp, wA, wB, ri, li, seed, g=None, case=None, order=0):
    from xgcm.padding import pad

    # per-axis rules and fill values: the operated axis gets RULES[ri], the other axis the next rule
    rule, fv = RULES[ri]
    orule, ofv = RULES[(ri + sum(wA) + sum(wB)) % len(RULES)]  # same rule as the operated axis in a third of the cases
    ofv = ofv - 10.0
    brule = {axis: rule, T.OTHER[axis]: orule}
    bfv = {axis: fv, T.OTHER[axis]: ofv}
    layout = LAYOUTS[li]
    if case is None:
        case = dict(K=K, N=N, table=tab_json(table), axis=axis, comp=comp, wA=list(wA), wB=list(wB), ri=ri, li=li, order=order)
    widths = {axis: tuple(wA), T.OTHER[axis]: tuple(wB)}
    # the values depend on the case, so that consecutive pads on one Grid never carry the same data
    arrays = fields(K, N, seed + ri * 3 + li + wA[0] * 5 + wA[1] * 7 + wB[0] * 11 + (0 if comp == "s" else 1 if comp == "X" else 2))
    if (seed + ri + li + wA[0] + wB[1]) % 3 == 0:
        # missing values among the data (a corner cell of the first face, an edge cell of the last one): they stay where
        # they are and travel through links like any other value
        arrays = {k: a.copy() for k, a in arrays.items()}
        for a in arrays.values():
            a[0, 0, 0] = np.nan
            a[K - 1, N - 1, N // 2] = np.nan
    isvec = comp != "s"
    mixed = isvec and (ri + li + wA[0] + wB[0]) % 4 == 1
    if mixed:
        # the padded component in single precision, its partner in double precision with values single precision cannot
        # hold: what arrives through an axis-swapping link is the partner's value, unrounded
        arrays = {k: a.copy() for k, a in arrays.items()}
        arrays[comp] = arrays[comp].astype(np.float32).astype(float)
        arrays[T.OTHER[comp]] = arrays[T.OTHER[comp]] + 0.1
    # non-triviality: some halo cell comes through a link
    kinds = set()
    uses_partner = flips = False
    for f in range(K):
        for ax in ("X", "Y"):
            for side in (0, 1):
                link = table[f].get(ax, (None, None))[side]
                if link is not None and widths[ax][side] > 0:
                    kinds.add(T.link_kind(side, ax, link))
                    if isvec and link[1] != ax:
                        uses_partner = True
                    if isvec and ((comp == ax and link[2]) or (comp != ax and link[1] != ax and not link[2])):
                        flips = True
    rec.case((K, N, tab_json(table), axis, comp, tuple(wA), tuple(wB), ri, li), bool(kinds), sample=case)
    for kd in kinds:
        rec.counters["kind:%d%d%d" % (kd[0], kd[1], kd[2])] += 1
    rec.counters["partner_used"] += uses_partner
    rec.counters["sign_flipped"] += flips
    if g is None:
        try:
            g = make_grid(K, N, table, order=order)
        except Exception as e:
            rec.violation("constructor", "raise:" + exc_sig(e), case, "a Grid", f"{type(e).__name__}: {e}"[:200])
            return
    bw = {axis: tuple(wA)}
    if tuple(wB) != (0, 0):
        bw[T.OTHER[axis]] = tuple(wB)
    try:
        if comp == "s":
            r = pad(to_da(arrays["s"], "s", layout), g, bw, boundary=dict(brule), fill_value=dict(bfv))
        else:
            oc = T.OTHER[comp]
            vec_ = {comp: to_da(arrays[comp], comp, layout).astype(np.float32) if mixed else to_da(arrays[comp], comp, layout)}
            ocd_ = {oc: to_da(arrays[oc], oc, layout)}
            held_ = (vec_[comp], ocd_[oc])
            r = pad(vec_, g, bw, boundary=dict(brule), fill_value=dict(bfv), other_component=ocd_)
            if (ri + li + wA[1]) % 2 == 0:
                # a caller that keeps its two mappings and asks again (other widths first, then the same request): the
                # request stays legal and the answer stays the same
                pad(vec_, g, {axis: (1, 0)}, boundary=dict(brule), fill_value=dict(bfv), other_component=ocd_)
                r2_ = pad(vec_, g, bw, boundary=dict(brule), fill_value=dict(bfv), other_component=ocd_)
                rec.calls += 2
                if r2_.dims != r.dims or not np.array_equal(r2_.values, r.values, equal_nan=True):
                    rec.violation("pad", "second-request-with-the-same-mappings-differs", case, r.values, r2_.values)
                    return
            if list(vec_) != [comp] or list(ocd_) != [oc] or vec_[comp] is not held_[0] or ocd_[oc] is not held_[1]:
                rec.violation("pad", "component-mapping-changed", case, [[comp], [oc]], [list(vec_), list(ocd_)])
                return
    except Exception as e:
        rec.violation("pad", "raise:" + exc_sig(e), case, "padded array", f"{type(e).__name__}: {e}"[:200])
        return
    dy, dx = DIMS[comp]["Y"], DIMS[comp]["X"]
    want = ["face", dy, dx] if "t" not in layout else ["t", "face", dy, dx]
    if set(r.dims) != set(want):
        rec.violation("pad", "dims", case, want, list(r.dims))
        return
    v = r.transpose(*want).values
    rules = brule
    for tt in ((0, 1) if "t" in layout else (None,)):
        vv = v if tt is None else v[tt]
        arrs = arrays if tt in (None, 0) else {k: a * 2 + 1000 for k, a in arrays.items()}
        # the reference marks "any value" cells with NaN; missing data is represented there by a sentinel number
        arrs_ref = {k: np.where(np.isnan(a), SENTINEL, a) for k, a in arrs.items()}
        for f in range(K):
            exp = T.ref_padded_face(table, N, arrs_ref, comp, f, widths, rules, bfv, isvec)
            got = vv[f]
            if got.shape != exp.shape:
                rec.violation("pad", "shape", case, list(exp.shape), list(got.shape))
                return
            m = ~np.isnan(exp)
            missing = m & (np.abs(exp) == SENTINEL)
            got = np.where(missing & np.isnan(got), exp, got)  # a missing value where one is expected (either sign)
            if not np.array_equal(got[m], exp[m]):
                (ly, hy), (lx, hx) = widths["Y"], widths["X"]
                inner = got[ly: ly + N, lx: lx + N]
                cls = "interior-changed" if not np.array_equal(inner, arrs_ref[comp][f]) else classify(table, f, got, exp, widths, N)
                rec.violation("pad", cls, case, np.where(m, exp, -999999.0), got)
                return


def classify(table, f, got, exp, widths, N):
    """which kind of edge is wrong (linked kind / unlinked)"""
    (ly, hy), (lx, hx) = widths["Y"], widths["X"]
    bad = np.argwhere(~np.isnan(exp) & (got != exp))
    j, i = bad[0]
    if i < lx:
        ax, side = "X", 0
    elif i >= lx + N:
        ax, side = "X", 1
    elif j < ly:
        ax, side = "Y", 0
    else:
        ax, side = "Y", 1
    link = table[f].get(ax, (None, None))[side]
    if link is None:
        return "halo-unlinked-edge"
    kd = T.link_kind(side, ax, link)
    return "halo-linked:side%d-swap%d-rev%d" % kd


def tab_json(table):
    return {str(f): {A: [list(l) if l else None for l in pair] for A, pair in axes.items()} for f, axes in table.items()}


def tab_from_json(tj):
    return {int(f): {A: tuple(tuple(l) if l else None for l in pair) for A, pair in axes.items()} for f, axes in tj.items()}


# ------------------------------------------------------------------ table families
_CACHE = {}


def two_face_tables(tier):
    if tier in _CACHE:
        return _CACHE[tier]
    sl = T.slots(2)
    tabs = []
    seen = set()
    for m in T.matchings(sl, allow_same_slot=False):
        if m:
            tabs.append(T.table_of(m, 2))
    if tier == "quick":
        # exactly one same-slot link plus up to 2 ordinary links among the other slots
        for a in sl:
            rest = [s for s in sl if s != a]
            for m in T.matchings(rest, allow_same_slot=False, max_links=2):
                tabs.append(T.table_of([(a, a)] + m, 2))
    else:
        for m in T.matchings(sl, allow_same_slot=True):
            if any(a == b for a, b in m):
                tabs.append(T.table_of(m, 2))
    out = []
    for t in tabs:
        k = repr(tab_json(t))
        if k not in seen:
            seen.add(k)
            out.append(t)
    _CACHE[tier] = out
    return out


def structured_tables():
    """chains, rings and stars of 3-6 faces whose junctions cycle through all 8 link kinds"""
    kinds = [(s, sw, rv) for s in (1, 0) for sw in (False, True) for rv in (False, True)]
    out = []
    for K in (3, 4, 5, 6):
        for shape in ("chain", "ring", "star"):
            for off in range(0, 8, 2 if K > 4 else 1):
                used = set()
                m = []
                if shape == "star":
                    pairs = [(0, j) for j in range(1, K)]
                else:
                    pairs = [(j, j + 1) for j in range(K - 1)] + ([(K - 1, 0)] if shape == "ring" else [])
                ok = True
                for ji, (fa, fb) in enumerate(pairs):
                    side_a, swap, rev = kinds[(ji + off) % 8]
                    placed = False
                    for A in ("X", "Y"):
                        B = T.OTHER[A] if swap else A
                        side_b = side_a if rev else 1 - side_a
                        a, b = (fa, A, side_a), (fb, B, side_b)
                        if a not in used and b not in used and a != b:
                            used |= {a, b}
                            m.append((a, b))
                            placed = True
                            break
                    if not placed:
                        # fall back to any free slot pair of that kind with the other side
                        for A in ("X", "Y"):
                            B = T.OTHER[A] if swap else A
                            sa = 1 - side_a
                            sb = sa if rev else 1 - sa
                            a, b = (fa, A, sa), (fb, B, sb)
                            if a not in used and b not in used and a != b:
                                used |= {a, b}
                                m.append((a, b))
                                placed = True
                                break
                    ok = ok and placed
                if m:
                    out.append((K, T.table_of(m, K)))
    return out


def three_face_tables():
    sl = T.slots(3)
    out = []
    for m in T.matchings(sl, allow_same_slot=True, max_links=2):
        if m and len({a[0] for a, b in m} | {b[0] for a, b in m}) >= 2:
            out.append(T.table_of(m, 3))
    return out


def representative_tables():
    """one two-face table per link kind (a single link of that kind + its reciprocal)"""
    out = []
    for side_a in (0, 1):
        for swap in (False, True):
            for rev in (False, True):
                A = "X"
                B = "Y" if swap else "X"
                side_b = side_a if rev else 1 - side_a
                out.append(T.table_of([((0, A, side_a), (1, B, side_b))], 2))
                out.append(T.table_of([((0, "Y", side_a), (1, T.OTHER[B], side_b))], 2))
    return out


def shards(tier, seed):
    sh = []
    tabs = two_face_tables(tier)
    size = 24 if tier == "quick" else 40
    for N in BOUNDS[tier]["N"]:
        if N == 4 and tier == "thorough":
            sh += [("two", N, lo, min(lo + size, len(tabs)), 7) for lo in range(0, len(tabs), size)]
        else:
            sh += [("two", N, lo, min(lo + size, len(tabs)), 1) for lo in range(0, len(tabs), size)]
    reps = representative_tables()
    sh += [("rep", N, i) for N in BOUNDS[tier]["N"] for i in range(len(reps))]
    st = structured_tables()
    sh += [("struct", i) for i in range(len(st))]
    if tier == "thorough":
        n3 = len(three_face_tables())
        sh += [("three", lo, min(lo + 60, n3)) for lo in range(0, n3, 60)]
    return sh


def jsonable_widths(zw):
    return {k: list(v) for k, v in zw.items()}


def run_table(rec, K, N, table, ti, seed, per=4, layouts=(0,)):
    g = None
    order = ti % 3
    try:
        g = make_grid(K, N, table, order=order)
    except Exception as e:
        rec.case(("ctor", K, N, tab_json(table)), True)
        rec.violation("constructor", "raise:" + exc_sig(e), dict(K=K, N=N, table=tab_json(table), axis="X", comp="s", wA=[1, 1], wB=[0, 0], ri=0, li=0),
                      "a Grid", f"{type(e).__name__}: {e}"[:200])
        return
    # a request for no halo at all (widths zero, as tuples or as lists) returns the array as it is
    from xgcm.padding import pad as _pad

    for zi, zw in enumerate(({"X": (0, 0), "Y": (0, 0)}, {"X": [0, 0], "Y": [0, 0]}, {"X": [0, 0]}, {"Y": (0, 0)})):
        if (ti + zi) % 2:
            continue
        zcase = dict(K=K, N=N, table=tab_json(table), zero_widths=jsonable_widths(zw), order=order)
        rec.case(("zero", K, N, tab_json(table), zi), True, sample=zcase)
        a0 = fields(K, N, seed + ti)["s"]
        try:
            with warnings.catch_warnings():
                warnings.simplefilter("ignore")
                rz = _pad(to_da(a0, "s", LAYOUTS[0]), g, zw, boundary="extend")
            if set(rz.dims) != {"face", "y", "x"} or not np.array_equal(rz.transpose("face", "y", "x").values, a0):
                rec.violation("pad", "zero-width-request-changes-the-array", zcase, list(a0.shape), list(rz.shape))
        except Exception as e:
            rec.violation("pad", "raise:zero-width:" + exc_sig(e), zcase, "the array", f"{type(e).__name__}: {e}"[:200])
    combos = all_width_rule(N)
    j = 0
    for axis in ("X", "Y"):
        for comp in ("s", "X", "Y"):
            for q in range(per):
                (wA, ri) = combos[(ti * 11 + j * 5) % len(combos)]
                wB = OTHERW[(ti + j) % len(OTHERW)]
                wB = tuple(min(w, min(3, N)) for w in wB)
                li = layouts[(ti + j) % len(layouts)]
                check_pad(rec, K, N, table, axis, comp, wA, wB, ri, li, seed, g, order=order)
                j += 1


def run_shard(shard, tier, seed, rec):
    k = shard[0]
    if k == "two":
        _, N, lo, hi, stride = shard
        tabs = two_face_tables(tier)
        for ti in range(lo, hi, stride):
            run_table(rec, 2, N, tabs[ti], ti, seed, per=4 if tier == "quick" else 6, layouts=(0, 1, 2, 3, 4))
    elif k == "rep":
        _, N, i = shard
        table = representative_tables()[i]
        g = make_grid(2, N, table)
        combos = all_width_rule(N)
        for axis in ("X", "Y"):
            for comp in ("s", "X", "Y"):
                for (wA, ri) in combos:
                    check_pad(rec, 2, N, table, axis, comp, wA, (0, 0), ri, 0, seed, g)
                if tier == "thorough" or (i % 4 == 0):
                    w = range(0, min(3, N) + 1)
                    for wA in itertools.product(w, w):
                        for wB in itertools.product(w, w):
                            if wA == (0, 0) or wB == (0, 0):
                                continue
                            if tier == "quick" and (wA[0] + wB[1]) % 2:
                                continue
                            check_pad(rec, 2, N, table, axis, comp, wA, wB, (wA[0] + wB[0]) % len(RULES), 0, seed, g)
    elif k == "struct":
        K, table = structured_tables()[shard[1]]
        for N in (2, 3):
            run_table(rec, K, N, table, shard[1], seed, per=4, layouts=(0, 1, 2))
    elif k == "three":
        tabs = three_face_tables()
        for ti in range(shard[1], shard[2]):
            run_table(rec, 3, 2 + ti % 2, tabs[ti], ti, seed, per=1, layouts=(0,))


def replay_case(case, seed, rec):
    if "zero_widths" in case:
        return  # replayed in the context of its shard (run_table)
    table = tab_from_json(case["table"])
    check_pad(rec, case["K"], case["N"], table, case["axis"], case["comp"], tuple(case["wA"]), tuple(case["wB"]),
              case["ri"], case["li"], seed, order=case.get("order", 0))
