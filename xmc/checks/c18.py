"""C18  Operations never modify their arguments; results are history-independent.

All operation sequences (depth 3 quick / 4 thorough) over an alphabet of public calls that
share one set of argument objects per scenario.  The state is a deep snapshot of every shared
object plus every mutable module-level object of the xgcm package; the invariant is that every
transition is a self-loop, and that each operation's result equals its result when run first on
fresh objects.  Sequences are deliberately not merged by state.
"""
import collections
import itertools
import sys
import warnings

import numpy as np
import xarray as xr

from ..core import exc_sig, h64

PID = "C18"
LEVEL = "model_checking"
TECHNIQUE = "exhaustive enumeration of all operation sequences up to a depth on shared argument objects (real calls), state invariant = deep snapshot of arguments, Grid and xgcm module globals never changes; results compared with first-call results"
RULE = (
    "state = deep snapshot of all shared argument objects, the dataset, the Grid and all mutable module-level objects of xgcm; "
    "transition = one real API call; non-trivial = a sequence in which some argument object is passed to at least two calls"
)
SPACE = {
    "quick": "5 scenarios (simple grid with a second Grid object, face-connected grid, grid with metrics, transform grid, grids parsed from COMODO / SGRID metadata incl. attributes stored as text) x all sequences a;b;c with a, b over all 10-20 operations of the scenario (incl. calls that raise) and c over every second one; every prefix checked",
    "thorough": "a;b;c;d with a, b, c over all operations and d over every third one",
}
BOUNDS = {"quick": {"depth": 3}, "thorough": {"depth": 4}}  # see alphabets()
ASSUMPTIONS = [
    "state hidden from the snapshot (closures, C-level caches) is only caught through clause (ii): results must equal first-call results",
    "process-wide options of xarray / numpy / dask are part of the state: an operation that changes them changes every later result in the process",
    "set_metrics is a mutator by design; it is included only in forms that must leave the registry unchanged (idempotent overwrite, refused registration)",
]


# ------------------------------------------------------------------ snapshots
def snap_da(da):
    if isinstance(da, xr.DataArray):
        return (
            "DA", da.name, tuple(da.dims), tuple(da.shape), str(da.dtype),
            np.ascontiguousarray(da.values).tobytes(),
            tuple(sorted((str(k), tuple(v.dims), np.ascontiguousarray(v.values).tobytes(), repr(sorted(v.attrs.items()))) for k, v in da.coords.items())),
            repr(sorted(da.attrs.items())),
        )
    return snap(da)


def snap(o, depth=0):
    if isinstance(o, xr.DataArray):
        return snap_da(o)
    if isinstance(o, xr.Dataset):
        return ("DS", tuple(sorted((str(k), snap(v)) for k, v in o.variables.items())), repr(sorted(o.attrs.items())),
                tuple(sorted(map(str, o.coords))))
    if isinstance(o, xr.Variable):
        return ("VAR", tuple(o.dims), tuple(o.shape), str(o.dtype), np.ascontiguousarray(o.values).tobytes(),
                repr(sorted((str(k), type(v).__name__, repr(v)) for k, v in o.attrs.items())), repr(sorted(o.encoding.items())))
    if isinstance(o, np.ndarray):
        return ("ND", o.shape, str(o.dtype), np.ascontiguousarray(o).tobytes())
    if isinstance(o, dict):
        return ("D", type(o).__name__, tuple((repr(k), snap(v, depth + 1)) for k, v in o.items()))
    if isinstance(o, (list, tuple)):
        return (type(o).__name__, tuple(snap(v, depth + 1) for v in o))
    if isinstance(o, (set, frozenset)):
        return ("S", tuple(sorted(repr(x) for x in o)))
    if type(o).__name__ == "Grid":
        return snap_grid(o)
    if type(o).__name__ == "GridUFunc":
        return ("GUF", str(o.signature), snap({k: v for k, v in vars(o).items() if k not in ("ufunc", "signature")}, depth + 1),
                snap([o.signature.in_ax_names, o.signature.in_ax_positions, o.signature.out_ax_names, o.signature.out_ax_positions]))
    if callable(o):
        return ("F", getattr(o, "__name__", "?"))
    return repr(o)


def snap_grid(g):
    axes = []
    for name, ax in g.axes.items():
        axes.append((name, snap(dict(ax.coords)), ax.boundary, repr(ax.fill_value), snap(dict(ax._default_shifts)), ax._periodic,
                     repr(getattr(ax, "_facedim", None)),
                     repr(sorted((k, repr(v)) for k, v in (getattr(ax, "_face_connections", None) or {}).items()))))
    mets = []
    for k in sorted(g._metrics, key=lambda s: sorted(s)):
        mets.append((tuple(sorted(k)), tuple(snap_da(v) for v in g._metrics[k])))
    return ("GRID", tuple(axes), tuple(mets), repr(g._facedim), snap(g._face_connections), snap(g._ds))


def module_state():
    import xgcm

    out = []
    for mname in sorted(m for m in sys.modules if m == "xgcm" or m.startswith("xgcm.")):
        mod = sys.modules[mname]
        if mod is None or mname.startswith("xgcm.test"):
            continue
        for name, obj in sorted(vars(mod).items()):
            if name.startswith("__"):
                continue
            if isinstance(obj, (dict, list, set, np.ndarray, collections.OrderedDict)) or type(obj).__name__ == "GridUFunc":
                out.append((mname, name, snap(obj)))
    from xgcm.grid_ufunc import _GridUFuncSignature

    out.append(("cls", snap(list(_GridUFuncSignature._REPLACEMENT_DUMMY_INDEX_NAMES))))
    return tuple(out)


def global_options():
    """process-wide settings of the libraries xgcm builds on; xgcm has no business changing them"""
    import dask

    out = {"numpy.errstate": repr(sorted(np.geterr().items())), "numpy.printoptions": repr(sorted((k, repr(v)) for k, v in np.get_printoptions().items()))}
    try:
        out["xarray.options"] = repr(sorted((k, repr(v)) for k, v in xr.get_options().items()))
    except Exception:
        pass
    try:
        out["dask.config"] = str(h64(repr(sorted((k, repr(v)) for k, v in dask.config.config.items()))))
    except Exception:
        pass
    return out


_BASE_OPTIONS = global_options()


def restore_options():
    import ast

    try:
        xr.set_options(**dict((k, ast.literal_eval(v)) for k, v in ast.literal_eval(_BASE_OPTIONS["xarray.options"])))
    except Exception:
        pass
    np.seterr(**dict(ast.literal_eval(_BASE_OPTIONS["numpy.errstate"])))


def options_changed():
    now = global_options()
    return sorted(k for k in _BASE_OPTIONS if now.get(k) != _BASE_OPTIONS[k])


def snapshot(ns):
    parts = {}
    for k, v in ns.items():
        if k.startswith("_"):
            continue
        parts[k] = h64(snap(v))
    parts["<module globals>"] = h64(module_state())
    return parts


def canon_result(r):
    if isinstance(r, Exception):
        return ("raise", type(r).__name__)
    if isinstance(r, xr.DataArray):
        return ("DA", r.name, tuple(r.dims), tuple(r.shape), np.ascontiguousarray(np.asarray(r.values, dtype=float)).tobytes(),
                tuple(sorted(map(str, r.coords))))
    if isinstance(r, dict):
        return ("D", tuple((str(k), canon_result(v)) for k, v in sorted(r.items(), key=lambda kv: str(kv[0]))))
    if isinstance(r, (tuple, list)):
        return ("T", tuple(canon_result(x) for x in r))
    if type(r).__name__ == "Grid":
        return ("G", h64(snap_grid(r)))
    return repr(r)


# ------------------------------------------------------------------ scenarios
def _ufunc(a):
    return a[..., 1:] - a[..., :-1]


def scn_simple():
    from xgcm import Grid

    nx, ny = 3, 2
    ds = xr.Dataset(coords={
        "xc": ("xc", np.arange(nx) + 0.5, {"units": "m"}), "xl": ("xl", np.arange(nx) * 1.0), "xo": ("xo", np.arange(nx + 1) * 1.0),
        "yc": ("yc", np.arange(ny) + 0.5), "yl": ("yl", np.arange(ny) * 1.0), "t": ("t", [0, 1]),
    })
    ds = ds.assign_coords(depth=(("yc", "xc"), np.arange(ny * nx).reshape(ny, nx) * 1.0))
    ns = {}
    ns["ds"] = ds
    ns["coords"] = {"X": {"center": "xc", "left": "xl", "outer": "xo"}, "Y": {"center": "yc", "left": "yl"}}
    ns["gb"] = {"X": "extend", "Y": None}
    ns["gf"] = {"X": 2.0}
    ns["per"] = ["Y"]
    with warnings.catch_warnings():
        warnings.simplefilter("ignore")
        ns["g"] = Grid(ds, coords=ns["coords"], periodic=False, boundary="fill", fill_value=0.0, autoparse_metadata=False)
    with warnings.catch_warnings():
        warnings.simplefilter("ignore")
        ns["g2"] = Grid(ds, coords=ns["coords"], periodic=["X"], boundary={"Y": "extend"}, fill_value=5.0, autoparse_metadata=False)
    c = xr.DataArray(((np.arange(2 * ny * nx) * 7) % 11).astype(float).reshape(2, ny, nx), dims=["t", "yc", "xc"], name="foo",
                     attrs={"long_name": "Foo"})
    ns["c"] = c.assign_coords(xc=ds.xc, yc=ds.yc, depth=ds.depth)
    ns["cneg"] = (-ns["c"] * 3 + 1).rename("neg")
    ns["co"] = xr.DataArray(((np.arange(2 * ny * (nx + 1)) * 5) % 13).astype(float).reshape(2, ny, nx + 1), dims=["t", "yc", "xo"], name="onouter")
    ns["u"] = xr.DataArray(np.arange(ny * nx).reshape(ny, nx) * 1.0 + 1, dims=["yc", "xl"], name="u")
    ns["v"] = xr.DataArray(-np.arange(ny * nx).reshape(ny, nx) * 2.0 - 1, dims=["yl", "xc"], name="v")
    ns["vec"] = {"X": ns["u"]}
    ns["oc"] = {"Y": ns["v"]}
    ns["vec2"] = {"X": ns["u"], "Y": ns["v"]}
    ns["bmap"] = {"X": "extend", "Y": "fill"}
    ns["fmap"] = {"X": 1.0, "Y": 2.0}
    ns["tomap"] = {"X": "left", "Y": "left"}
    ns["bmap2"] = {"X": "fill", "Y": "extend"}  # same axes as bmap, other values
    ns["fmap2"] = {"X": -4.0, "Y": 0.0}
    ns["bw"] = {"X": (1, 2), "Y": (0, 1)}
    ns["bw1"] = {"X": (1, 0)}
    ns["axl"] = ["X", "Y"]
    from xgcm.padding import pad
    from xgcm.grid_ufunc import apply_as_grid_ufunc

    ops = collections.OrderedDict()
    ops["diff_x"] = lambda n: n["g"].diff(n["c"], "X", to="left")
    ops["interp_xy_maps"] = lambda n: n["g"].interp(n["c"], n["axl"], to=n["tomap"], boundary=n["bmap"], fill_value=n["fmap"])
    ops["interp_xy_maps2"] = lambda n: n["g"].interp(n["c"], n["axl"], to=n["tomap"], boundary=n["bmap2"], fill_value=n["fmap2"])
    ops["min_y_bmap"] = lambda n: n["g"].min(n["c"], "Y", boundary=n["bmap"])
    ops["min_y_neg"] = lambda n: n["g"].min(n["cneg"], "Y", boundary=n["bmap"])
    ops["max_x_outer"] = lambda n: n["g"].max(n["c"], "X", to="outer", boundary="fill", fill_value=n["fmap"])
    # shifts that need no padding: the operator works on the caller's own buffer unless it is copied
    ops["min_from_outer"] = lambda n: n["g"].min(n["co"], "X", to="center")
    ops["max_from_outer"] = lambda n: n["g"].max(n["co"], ["X", "Y"], to={"X": "center", "Y": "left"}, boundary=n["bmap"])
    ops["diff_from_outer"] = lambda n: n["g"].diff(n["co"], "X")
    ops["cumsum_x_maps"] = lambda n: n["g"].cumsum(n["c"], "X", to=n["tomap"], boundary=n["bmap"], fill_value=n["fmap"])
    ops["cumsum_yx"] = lambda n: n["g"].cumsum(n["c"], ["Y", "X"], boundary="fill")
    ops["pad_maps"] = lambda n: pad(n["c"], n["g"], n["bw"], boundary=n["bmap"], fill_value=n["fmap"])
    ops["ufunc"] = lambda n: apply_as_grid_ufunc(_ufunc, n["c"], axis=[("X",)], grid=n["g"], signature="(X:center)->(X:left)",
                                                 boundary_width=n["bw1"], boundary=n["bmap"], fill_value=n["fmap"])
    ops["construct"] = lambda n: _construct(n)
    # a second Grid object on the same dataset with other settings, used alternately with the first
    ops["g2_diff_x"] = lambda n: n["g2"].diff(n["c"], "X", to="left")
    ops["g2_interp_xy"] = lambda n: n["g2"].interp(n["c"], n["axl"], to=n["tomap"], fill_value=n["fmap"])
    ops["diff_keep"] = lambda n: n["g"].diff(n["c"], "X", to="left", keep_coords=True)
    ops["vec_diff"] = lambda n: n["g"].diff(n["vec"], "X", other_component=n["oc"])
    ops["vec2d"] = lambda n: n["g"].interp_2d_vector(n["vec2"], boundary="extend")
    # a vector call that is refused half way: the caller's mapping must survive that too
    ops["vec2d_refused"] = lambda n: n["g"].interp_2d_vector(n["vec2"], boundary="bogus")
    ops["bad_axis"] = lambda n: n["g"].diff(n["c"], "Z")
    ops["bad_to"] = lambda n: n["g"].diff(n["c"], "X", to="center", boundary=n["bmap"])
    ops["bad_boundary"] = lambda n: n["g"].interp(n["c"], n["axl"], boundary="bogus", fill_value=n["fmap"])
    return ns, ops


def _construct(n):
    from xgcm import Grid

    with warnings.catch_warnings():
        warnings.simplefilter("ignore")
        return Grid(n["ds"], coords=n["coords"], periodic=n["per"], boundary=n["gb"], fill_value=n["gf"], autoparse_metadata=False)


def scn_metrics():
    from xgcm import Grid

    nx, ny = 3, 2
    ds = xr.Dataset(coords={
        "xc": ("xc", np.arange(nx) + 0.5), "xl": ("xl", np.arange(nx) * 1.0),
        "yc": ("yc", np.arange(ny) + 0.5), "yl": ("yl", np.arange(ny) * 1.0), "t": ("t", [0, 1]),
    })
    ds["dx_c"] = ("xc", [1.0, 2.0, 4.0])
    ds["dx_l"] = ("xl", [0.5, 1.0, 2.0])
    ds["dx_c2"] = ("xc", [8.0, 2.0, 4.0])
    ds["dy_c"] = ("yc", [2.0, 0.5])
    ds["dy_l"] = ("yl", [1.0, 4.0])
    ds["area_c"] = (("yc", "xc"), np.array([[2.0, 4.0, 8.0], [0.5, 1.0, 2.0]]))
    ns = {"ds": ds}
    ns["coords"] = {"X": {"center": "xc", "left": "xl"}, "Y": {"center": "yc", "left": "yl"}}
    ns["mets"] = {("X",): ["dx_c", "dx_l"], ("Y",): ["dy_c", "dy_l"], ("X", "Y"): ["area_c"]}
    with warnings.catch_warnings():
        warnings.simplefilter("ignore")
        ns["g"] = Grid(ds, coords=ns["coords"], periodic=False, boundary="extend", metrics=ns["mets"], autoparse_metadata=False)
    # a second Grid: metrics for X and Y separately (every {X,Y} request is answered by a product), X also has an outer
    # position for which no metric is registered (answers there are interpolated from a registered one)
    ds2 = ds.drop_vars("area_c").assign_coords(xo=("xo", np.arange(nx + 1) * 1.0))
    ns["ds2"] = ds2
    with warnings.catch_warnings():
        warnings.simplefilter("ignore")
        ns["gp"] = Grid(ds2, coords={"X": {"center": "xc", "left": "xl", "outer": "xo"}, "Y": {"center": "yc", "left": "yl"}}, periodic=False,
                        boundary="extend", metrics={("X",): ["dx_c", "dx_l"], ("Y",): ["dy_l", "dy_c"]}, autoparse_metadata=False)
    ns["cll"] = xr.DataArray(((np.arange(ny * nx) * 7) % 11).astype(float).reshape(ny, nx) + 1, dims=["yl", "xl"], name="onfaces")
    ns["cco"] = xr.DataArray(((np.arange(ny * (nx + 1)) * 3) % 5).astype(float).reshape(ny, nx + 1) + 2, dims=["yc", "xo"], name="onouter")
    ns["c"] = xr.DataArray(((np.arange(2 * ny * nx) * 5) % 13).astype(float).reshape(2, ny, nx), dims=["t", "yc", "xc"], name="foo")
    ns["cl"] = xr.DataArray(((np.arange(ny * nx) * 3) % 7).astype(float).reshape(ny, nx), dims=["yc", "xl"], name="bar")
    ns["mw"] = {"X": ("X",), "Y": ("Y",)}
    ns["mwl"] = ["X", "Y"]
    ns["mws"] = {"X": "X", "Y": ("Y",)}  # per-axis mapping with a plain-string entry
    ns["axl"] = ["X", "Y"]
    ns["bmap"] = {"X": "fill", "Y": "extend"}
    ns["tomap"] = {"X": "left"}
    ns["mlist"] = ["dx_c", "dx_l"]
    ops = collections.OrderedDict()
    ops["integrate_x"] = lambda n: n["g"].integrate(n["c"], "X")
    ops["integrate_xy"] = lambda n: n["g"].integrate(n["c"], n["axl"])
    ops["average_y"] = lambda n: n["g"].average(n["c"], "Y")
    ops["derivative_x"] = lambda n: n["g"].derivative(n["c"], "X", boundary=n["bmap"])
    ops["cumint_x"] = lambda n: n["g"].cumint(n["c"], "X", to=n["tomap"], boundary=n["bmap"])
    ops["diff_mw_map"] = lambda n: n["g"].diff(n["c"], n["axl"], metric_weighted=n["mw"])
    ops["interp_mw_strmap"] = lambda n: n["g"].interp(n["c"], n["axl"], metric_weighted=n["mws"])
    ops["cumsum_mw_strmap"] = lambda n: n["g"].cumsum(n["c"], "X", to="left", metric_weighted=n["mws"], boundary="fill")
    ops["interp_mw_list"] = lambda n: n["g"].interp(n["cl"], "X", metric_weighted=n["mwl"])
    ops["get_metric"] = lambda n: n["g"].get_metric(n["cl"], n["axl"])
    ops["interp_like"] = lambda n: n["g"].interp_like(n["cl"], n["c"], boundary="extend")
    ops["set_same"] = lambda n: n["g"].set_metrics("X", n["mlist"], overwrite=True)
    ops["set_refused"] = lambda n: n["g"].set_metrics(("X",), "dx_c2")
    # refused because a later name of the list is unknown: the names listed before it are not registered either
    ns["mbad"] = ["dx_c2", "no_such_metric"]
    ops["set_refused_unknown"] = lambda n: n["g"].set_metrics("X", n["mbad"], overwrite=True)
    ops["construct"] = lambda n: _construct_m(n)
    ops["cumsum_mw"] = lambda n: n["g"].cumsum(n["c"], "X", to="left", metric_weighted=n["mw"], boundary="fill")
    ops["bad_metric_axis"] = lambda n: n["g"].integrate(n["c"], "Z")
    ops["gp_integrate_xy_faces"] = lambda n: n["gp"].integrate(n["cll"], n["axl"])
    ops["gp_metric_xy_centre"] = lambda n: n["gp"].get_metric(n["c"], n["axl"])
    ops["gp_integrate_x_outer"] = lambda n: n["gp"].integrate(n["cco"], "X")
    ops["gp_metric_x_outer"] = lambda n: n["gp"].get_metric(n["cco"], n["axl"])
    return ns, ops


def _construct_m(n):
    from xgcm import Grid

    with warnings.catch_warnings():
        warnings.simplefilter("ignore")
        return Grid(n["ds"], coords=n["coords"], periodic=False, metrics=n["mets"], autoparse_metadata=False)


def scn_faces():
    from xgcm import Grid

    N = 2
    ds = xr.Dataset(coords={"x": ("x", np.arange(N)), "xl": ("xl", np.arange(N) - 0.5), "y": ("y", np.arange(N)),
                            "yl": ("yl", np.arange(N) - 0.5), "face": ("face", [0, 1]), "t": ("t", [0, 1])})
    # face 0 right edge (X) joins face 1 left edge along Y (rotated neighbour), plus a same-axis link on Y
    fc = {"face": {0: {"X": (None, (1, "Y", False)), "Y": ((1, "Y", False), None)},
                   1: {"Y": ((0, "X", False), (0, "Y", False))}}}
    ns = {"ds": ds, "fc": fc}
    ns["coords"] = {"X": {"center": "x", "left": "xl"}, "Y": {"center": "y", "left": "yl"}}
    with warnings.catch_warnings():
        warnings.simplefilter("ignore")
        ns["g"] = Grid(ds, coords=ns["coords"], face_connections=fc, periodic=False, boundary="fill", fill_value=0.0, autoparse_metadata=False)
    S = np.arange(2 * N * N, dtype=float).reshape(2, N, N) + 1
    ns["s"] = xr.DataArray(S, dims=["face", "y", "x"], name="s")
    ns["u"] = xr.DataArray(S * 10 + 0.25, dims=["face", "y", "xl"], name="u")
    ns["v"] = xr.DataArray(-(S * 100 + 0.5), dims=["face", "yl", "x"], name="v")
    ns["vecx"] = {"X": ns["u"]}
    ns["vecy"] = {"Y": ns["v"]}
    ns["ocy"] = {"Y": ns["v"]}
    ns["ocx"] = {"X": ns["u"]}
    ns["vec2"] = {"X": ns["u"], "Y": ns["v"]}
    ns["bw"] = {"X": (1, 1), "Y": (1, 0)}
    ns["bmap"] = {"X": "extend", "Y": "fill"}
    ns["fmap"] = {"X": 3.0, "Y": -1.0}
    ns["axl"] = ["X", "Y"]
    ns["tomap"] = {"X": "center", "Y": "left"}
    from xgcm.padding import pad

    ops = collections.OrderedDict()
    ops["diff_s"] = lambda n: n["g"].diff(n["s"], "X", boundary=n["bmap"])
    ops["interp_s_xy"] = lambda n: n["g"].interp(n["s"], n["axl"], fill_value=n["fmap"])
    ops["vec_diff_x"] = lambda n: n["g"].diff(n["vecx"], "X", other_component=n["ocy"])
    ops["vec_interp_y"] = lambda n: n["g"].interp(n["vecy"], "Y", other_component=n["ocx"], boundary=n["bmap"])
    ops["vec_multi"] = lambda n: n["g"].interp(n["vecx"], n["axl"], to=n["tomap"], other_component=n["ocy"])
    ops["diff_2d_vector"] = lambda n: n["g"].diff_2d_vector(n["vec2"], boundary="fill", fill_value=n["fmap"])
    ops["pad_vec"] = lambda n: pad(n["vecx"], n["g"], n["bw"], boundary=n["bmap"], fill_value=n["fmap"], other_component=n["ocy"])
    ops["pad_s"] = lambda n: pad(n["s"], n["g"], n["bw"], boundary="extend")
    ops["cumsum_s"] = lambda n: n["g"].cumsum(n["s"], "X", to="left", boundary="fill")
    ops["construct"] = lambda n: _construct_f(n)
    ops["vec2d_refused"] = lambda n: n["g"].diff_2d_vector(n["vec2"], boundary="bogus", fill_value=n["fmap"])
    ops["vec_missing_oc"] = lambda n: n["g"].diff(n["vecx"], "X")
    ops["bad_axis"] = lambda n: n["g"].interp(n["s"], "Z")
    ops["min_s"] = lambda n: n["g"].min(n["s"], "Y", boundary=n["bmap"], fill_value=n["fmap"])
    return ns, ops


def _construct_f(n):
    from xgcm import Grid

    with warnings.catch_warnings():
        warnings.simplefilter("ignore")
        return Grid(n["ds"], coords=n["coords"], face_connections=n["fc"], periodic=False, boundary=n["bmap"], fill_value=n["fmap"], autoparse_metadata=False)


def scn_transform():
    from xgcm import Grid

    nz = 3
    ds = xr.Dataset(coords={"zc": ("zc", np.arange(nz) + 0.5), "zo": ("zo", np.arange(nz + 1.0)), "x": ("x", [0, 1])})
    ns = {"ds": ds}
    ns["coords"] = {"Z": {"center": "zc", "outer": "zo"}}
    with warnings.catch_warnings():
        warnings.simplefilter("ignore")
        ns["g"] = Grid(ds, coords=ns["coords"], periodic=False, autoparse_metadata=False)
    ns["da"] = xr.DataArray(np.array([[1.0, 2.0, 4.0], [10.0, 20.0, 40.0]]), dims=["x", "zc"], name="foo").assign_coords(zc=ds.zc)
    ns["td"] = xr.DataArray(np.array([[0.0, 1.0, 2.0], [5.0, 3.0, 1.0]]), dims=["x", "zc"])  # deliberately unnamed
    ns["tdn"] = xr.DataArray(np.array([[0.0, 1.0, 2.0], [5.0, 3.0, 1.0]]), dims=["x", "zc"], name="dens")
    ns["tdo"] = xr.DataArray(np.array([[0.0, 1.0, 2.0, 3.0], [6.0, 4.0, 2.0, 0.0]]), dims=["x", "zo"], name="densb")
    ns["tdp"] = xr.DataArray(np.array([[1.0, 2.0, 4.0], [8.0, 4.0, 2.0]]), dims=["x", "zc"], name="p")
    ns["tdz"] = xr.DataArray(np.array([[0.0, 2.0, 4.0], [8.0, 4.0, 0.0]]), dims=["x", "zc"], name="pz")  # a zero at one end (surface pressure)
    ns["lev"] = np.array([0.5, 1.5, 4.0])
    ns["levda"] = xr.DataArray([0.5, 1.5, 4.0], dims=["lev"], name="lev")
    ns["bins"] = np.array([0.0, 1.0, 2.5, 6.0])
    ns["badbins"] = np.array([0.0, 2.0, 1.0])
    ops = collections.OrderedDict()
    ops["lin_unnamed"] = lambda n: n["g"].transform(n["da"], "Z", n["lev"], target_data=n["td"])
    ops["lin_named"] = lambda n: n["g"].transform(n["da"], "Z", n["levda"], target_data=n["tdn"], mask_edges=False)
    ops["lin_default"] = lambda n: n["g"].transform(n["da"], "Z", n["lev"])
    ops["log"] = lambda n: n["g"].transform(n["da"], "Z", n["lev"], target_data=n["tdp"], method="log")
    ops["log_zero_end"] = lambda n: n["g"].transform(n["da"], "Z", n["lev"], target_data=n["tdz"], method="log")
    ops["lin_zero_end"] = lambda n: n["g"].transform(n["da"], "Z", n["lev"], target_data=n["tdz"])
    ops["cons_outer"] = lambda n: n["g"].transform(n["da"], "Z", n["bins"], target_data=n["tdo"], method="conservative")
    ops["cons_center"] = lambda n: n["g"].transform(n["da"], "Z", n["bins"], target_data=n["tdn"], method="conservative")
    # another field with the same name, dimensions and shape as tdn (a second time slice of the same tracer)
    ns["tdn2"] = xr.DataArray(np.array([[0.5, 1.0, 4.0], [5.5, 2.0, 0.5]]), dims=["x", "zc"], name="dens")
    ops["cons_center_2"] = lambda n: n["g"].transform(n["da"], "Z", n["bins"], target_data=n["tdn2"], method="conservative")
    ops["cons_unnamed"] = lambda n: n["g"].transform(n["da"], "Z", n["bins"], target_data=n["td"], method="conservative")
    ops["cons_bad"] = lambda n: n["g"].transform(n["da"], "Z", n["badbins"], target_data=n["tdo"], method="conservative")
    ops["interp_z"] = lambda n: n["g"].interp(n["da"], "Z", boundary="extend")
    ops["cumsum_z"] = lambda n: n["g"].cumsum(n["da"], "Z", boundary="fill")
    return ns, ops


def scn_parsed():
    """Grids built from dataset metadata (COMODO attributes, some stored as text or integers; an SGRID topology variable)"""
    from xgcm import Grid
    from xgcm import comodo, metadata_parsers, sgrid

    n = 3
    ds = xr.Dataset(
        {"t": (("yc", "xc"), (np.arange(n * n) ** 2.0).reshape(n, n))},
        coords={
            "xc": ("xc", np.arange(n) + 0.5, {"axis": "X", "units": "m"}),
            "xg": ("xg", np.arange(n) * 1.0, {"axis": "X", "c_grid_axis_shift": "-0.5"}),  # the shift stored as text
            "yc": ("yc", np.arange(n) + 0.5, {"axis": "Y"}),
            "yg": ("yg", np.arange(n) + 1.0, {"axis": "Y", "c_grid_axis_shift": np.float32(0.5)}),
            "zc": ("zc", np.arange(2) + 0.5, {"axis": "Z"}),
            "zo": ("zo", np.arange(3) * 1.0, {"axis": "Z", "c_grid_axis_shift": -0.5}),
        },
        attrs={"title": "comodo"},
    )
    sattrs = {"cf_role": "grid_topology", "topology_dimension": 2, "node_dimensions": "xn yn",
              "face_dimensions": "xf: xn (padding: both) yf: yn (padding: low)"}
    sg = xr.Dataset({"grid": ((), np.int32(0), sattrs), "h": (("yf", "xf"), np.arange(9.0).reshape(3, 3))},
                    coords={"xf": ("xf", np.arange(3) * 1.0), "xn": ("xn", np.arange(2) * 1.0), "yf": ("yf", np.arange(3) * 1.0), "yn": ("yn", np.arange(3) * 1.0)},
                    attrs={"Conventions": "SGRID-0.3"})
    ns = {"ds": ds, "sg": sg}
    with warnings.catch_warnings():
        warnings.simplefilter("ignore")
        # the Grids the operations use are built from copies: the datasets in `ns` are first seen by xgcm inside an operation
        ns["g"] = Grid(ds.copy(deep=True), periodic=False, boundary="extend")
        ns["gs"] = Grid(sg.copy(deep=True), periodic=False, boundary="fill", fill_value=0.0)
    ns["t"] = ds["t"]
    ns["h"] = sg["h"]
    ns["axl"] = ["X", "Y"]
    ops = collections.OrderedDict()
    ops["construct"] = lambda n: Grid(n["ds"], periodic=False)
    ops["construct_periodic"] = lambda n: Grid(n["ds"], periodic=["X"], boundary={"Y": "extend", "Z": "fill"})
    ops["construct_sgrid"] = lambda n: Grid(n["sg"], periodic=False)
    ops["parse"] = lambda n: repr(metadata_parsers.parse_metadata(n["ds"])[1])
    ops["parse_sgrid"] = lambda n: repr(metadata_parsers.parse_metadata(n["sg"])[1])
    ops["comodo_x"] = lambda n: repr(comodo.get_axis_positions_and_coords(n["ds"], "X"))
    ops["comodo_axes"] = lambda n: repr(sorted(comodo.get_all_axes(n["ds"])))
    ops["sgrid_x"] = lambda n: repr(sgrid.get_axis_positions_and_coords(n["sg"], "X"))
    ops["interp_xy"] = lambda n: n["g"].interp(n["t"], n["axl"])
    ops["diff_y"] = lambda n: n["g"].diff(n["t"], "Y", keep_coords=True)
    ops["interp_ds_var"] = lambda n: n["g"].interp(n["ds"]["t"], "X")
    ops["sg_interp"] = lambda n: n["gs"].interp(n["h"], "X")
    ops["bad_axis"] = lambda n: comodo.get_axis_positions_and_coords(n["ds"], "Q")
    return ns, ops


SCN = collections.OrderedDict(simple=scn_simple, metrics=scn_metrics, faces=scn_faces, transform=scn_transform, parsed=scn_parsed)


def run_op(ns, fn):
    with warnings.catch_warnings():
        warnings.simplefilter("ignore")
        try:
            return fn(ns)
        except Exception as e:
            return e


_FIRST = {}


def first_results(scn):
    if scn not in _FIRST:
        out = {}
        _, ops = SCN[scn]()
        for name in ops:
            ns, ops2 = SCN[scn]()
            out[name] = canon_result(run_op(ns, ops2[name]))
            if options_changed():
                restore_options()  # reported when the operation occurs in a sequence; keep first results comparable
        _FIRST[scn] = out
    return _FIRST[scn]


def run_seq(rec, scn, seq):
    case = dict(scn=scn, seq=list(seq))
    first = first_results(scn)
    ns, ops = SCN[scn]()
    s0 = snapshot(ns)
    rec.state(("S", scn, tuple(sorted(s0.items()))))
    rec.case((scn, tuple(seq)), len(seq) >= 2, sample=case, calls=len(seq))
    kept = []
    for i, name in enumerate(seq):
        res = run_op(ns, ops[name])
        rec.transitions += 1
        ch = options_changed()
        if ch:
            restore_options()
            rec.violation("global-state", f"{scn}:{name}:changes-process-wide-options:{'+'.join(ch)}", dict(case, at=i),
                          "library options unchanged", "changed: " + ", ".join(ch), cost=i)
            return
        s1 = snapshot(ns)
        if s1 != s0:
            changed = sorted(k for k in s0 if s0[k] != s1.get(k))
            if changed == ["<module globals>"]:
                # a change of module-level state alone is not a violation of the property (it may be
                # a legitimate cache); it is counted, and its consequences are caught by clause (ii)
                rec.counters["module_state_changes"] += 1
                s0 = dict(s0, **{"<module globals>": s1["<module globals>"]})
                rec.state(("S", scn, tuple(sorted(s1.items()))))
            else:
                rec.state(("S", scn, tuple(sorted(s1.items()))))
                changed = [k for k in changed if k != "<module globals>"]
                rec.violation("immutability", f"{scn}:{name}:mutates:{'+'.join(changed)}", dict(case, at=i), "arguments unchanged",
                              "changed: " + ", ".join(changed), cost=i)
                return
        c = canon_result(res)
        if c != first[name]:
            what = "raises" if c[0] == "raise" else ("returns-instead-of-raising" if first[name][0] == "raise" else "different-result")
            rec.violation("history", f"{scn}:{name}:{what}-after:{'+'.join(seq[:i])}", dict(case, at=i),
                          _short(first[name]), _short(c) if not isinstance(res, Exception) else f"{type(res).__name__}: {res}"[:200], cost=i)
            return
        kept.append((name, res, c))
    # results handed out earlier must not be changed by later calls (shared buffers)
    for j, (name, res, c) in enumerate(kept[:-1]):
        if canon_result(res) != c:
            rec.violation("history", f"{scn}:{name}:earlier-result-changed-by-later-call:{'+'.join(seq[j + 1:])}", dict(case, at=j),
                          _short(c), _short(canon_result(res)), cost=len(seq))
            return
    rec.traces += 1


def _short(c):
    if isinstance(c, tuple) and c and c[0] == "DA":
        return ["DA", c[1], list(c[2]), np.frombuffer(c[4]).tolist()[:24]]
    return repr(c)[:300]


def shards(tier, seed):
    sh = []
    for scn in SCN:
        _, ops = SCN[scn]()
        for name in ops:
            sh.append((scn, name))
    return sh


def alphabets(names, tier):
    """per-position alphabets after the first operation.  quick: all x every second operation;
    thorough: all x all x every third operation (depth 4)."""
    if tier == "quick":
        return [names, names[::2]]
    return [names, names, names[::3]]


def run_shard(shard, tier, seed, rec):
    scn, firstop = shard
    _, ops = SCN[scn]()
    names = list(ops)
    for rest in itertools.product(*alphabets(names, tier)):
        run_seq(rec, scn, (firstop,) + rest)


def replay_case(case, seed, rec):
    run_seq(rec, case["scn"], tuple(case["seq"]))
