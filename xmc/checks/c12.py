"""C12  Results do not depend on the hash seed or on table ordering.

Model checking of iteration orders: the names `set`/`frozenset` of every xgcm module are rebound
to classes whose iteration order is a choice point; the explorer enumerates *every* permutation
of every set iterated from xgcm code plus every insertion order of the face-connection table and
of metrics=.  Oracle: exactly one outcome per driver configuration.  Conformance: the same driver
bodies run in fresh interpreters under literal PYTHONHASHSEED values; they must agree with each
other and lie inside the explored outcome set.
"""
import hashlib
import itertools
import json
import os
import subprocess
import sys
import warnings

import numpy as np
import xarray as xr

from .. import VERIF, explorer, nondet
from ..core import exc_sig
from ..ref import metrics as M
from ..ref import simple as S
from ..ref import topology as T

PID = "C12"
LEVEL = "model_checking"
TECHNIQUE = "stateless exploration of every iteration order of every set/frozenset iterated by xgcm (module-global rebinding) and every insertion order of user tables; one outcome required; literal PYTHONHASHSEED runs as conformance"
RULE = (
    "state = (driver configuration, outcome digest); transition = one resolution of a set-iteration-order or "
    "table-insertion-order choice point; non-trivial = a configuration in which a set of >= 2 elements is iterated by xgcm "
    "or a table with >= 2 entries is permuted"
)
SPACE = {
    "quick": "drivers: (i) 2-D pad on 2-face tables linking both axes x rule pairs x fill pairs x 2-D width sets; (ii) equivalent() on all pairs of 2-3-name signatures and their renamings; (iii) Grid(ds) for COMODO/SGRID datasets with 2-4 axes; (iv) get_metric/integrate on 3-axis registries with several partitions; (v) 2-D and 3-D pad on simple grids with per-axis rules and fill values; (vi) accept/reject of consistent and inconsistent 3-face link tables under every listing order; (vii) two-axis grid ufuncs (own and renamed dummy names, apply / decorator route) with widths and per-axis fill on both axes on 2- and 3-axis grids, arrays received by the function included; (viii) interp_like, get_metric from a corner-only measure, interp and diff-of-interp along 2-3 axes at once with per-axis rules and fill values; (ix) shifts without `to` on axes with 3-5 positions (explicit and COMODO grids), and pad / diff / interp along one axis of three-face strips whose faces list only the axes they are linked on, under every listing order, and halos along two unlinked axes of a face-connected grid; every execution with at most 2 non-default order choices (each choice ranges over all permutations of that set / table); literal seeds 0..11",
    "thorough": "more tables/width sets/registries; all combinations of all permutations (no deviation bound, cap 6000 executions per configuration reported if hit); literal seeds 0..47",
}
BOUNDS = {"quick": {"seeds": 12, "deviations": 2}, "thorough": {"seeds": 48, "deviations": None}}
ASSUMPTIONS = [
    "PYTHONHASHSEED acts only through set/frozenset iteration order; every order of a small set of strings is realisable by some seed, so all permutations over-approximate all seeds",
    "a set handed to xarray/numpy is iterated there in canonical order (their determinism is trusted)",
    "the same set object iterated twice without modification keeps its order; distinct objects are ordered independently",
    "insertion orders of tables with more than 3 entries are explored through rotations and reversals only",
    "sets of more than 5 elements are explored through rotations/reversals only (none occur in the drivers)",
]


def digest(*parts):
    h = hashlib.blake2b(digest_size=8)
    for p in parts:
        if isinstance(p, np.ndarray):
            h.update(str(p.shape).encode())
            h.update(np.ascontiguousarray(p, dtype=float).tobytes())
        else:
            h.update(repr(p).encode())
    return h.hexdigest()


def outcome_of(fn):
    try:
        with warnings.catch_warnings():
            warnings.simplefilter("ignore")
            return fn()
    except Exception as e:
        return "raise:" + type(e).__name__


# ------------------------------------------------------------------ driver (i): 2-D pad
def pad_tables():
    out = []
    for ti, t in enumerate(_two_face()):
        axes_linked = {A for f in t for A in t[f]}
        if axes_linked == {"X", "Y"}:
            out.append(t)
    return out


_TF = None


def _two_face():
    global _TF
    if _TF is None:
        sl = T.slots(2)
        _TF = [T.table_of(m, 2) for m in T.matchings(sl, allow_same_slot=False, max_links=2) if m]
    return _TF


PAD_RULES = (("extend", "extend"), ("fill", "extend"), ("extend", "fill"), ("periodic", "fill"), ("fill", "fill"), ("extend", "periodic"))
PAD_FILLS = ((5.0, 9.0),)
PAD_WIDTHS = (((1, 1), (1, 1)), ((1, 0), (0, 1)), ((2, 1), (1, 2)), ((0, 1), (1, 1)))


def pad_configs(tier):
    tabs = pad_tables()
    step = 5 if tier == "quick" else 1
    cfgs = []
    for ti in range(0, len(tabs), step):
        for ri in range(len(PAD_RULES)):
            for wi in range(len(PAD_WIDTHS)):
                if tier == "quick" and (ti // step + ri + wi) % 2:
                    continue
                cfgs.append(("pad", ti, ri, wi))
    return cfgs


def permuted_dict(d, label):
    """insertion order of a user-supplied dict as a choice point"""
    keys = list(d)
    if 1 < len(keys) <= 3:
        k = explorer.choose(len(list(itertools.permutations(keys))), ("dict-order", label, len(keys)))
        keys = explorer.nth_permutation(keys, k)
    elif len(keys) > 3:
        # larger tables: all rotations and their reversals (stated reduction)
        k = explorer.choose(2 * len(keys), ("dict-order-rot", label, len(keys)))
        keys = keys[k % len(keys):] + keys[: k % len(keys)]
        if k >= len(keys):
            keys = keys[::-1]
    return {k: d[k] for k in keys}


def run_pad(cfg):
    from xgcm import Grid
    from xgcm.padding import pad

    _, ti, ri, wi = cfg
    table = pad_tables()[ti]
    N = 2
    ds = xr.Dataset(coords={"x": ("x", np.arange(N)), "xl": ("xl", np.arange(N) - 0.5), "y": ("y", np.arange(N)),
                            "yl": ("yl", np.arange(N) - 0.5), "face": ("face", [0, 1])})
    fc_faces = permuted_dict({f: permuted_dict(axes, "axes-of-face") for f, axes in table.items() if axes or True}, "faces")
    g = Grid(ds, coords={"X": {"center": "x", "left": "xl"}, "Y": {"center": "y", "left": "yl"}},
             face_connections={"face": fc_faces}, periodic=False, autoparse_metadata=False)
    da = xr.DataArray(np.arange(2 * N * N, dtype=float).reshape(2, N, N) + 1, dims=["face", "y", "x"])
    rx, ry = PAD_RULES[ri]
    wx, wy = PAD_WIDTHS[wi]
    bw = permuted_dict({"X": wx, "Y": wy}, "boundary_width")
    r = pad(da, g, bw, boundary={"X": rx, "Y": ry}, fill_value={"X": PAD_FILLS[0][0], "Y": PAD_FILLS[0][1]})
    return digest(tuple(r.dims), r.values)


# ------------------------------------------------------------------ driver (ii): equivalent()
def sig_pairs(tier):
    pos = ("center", "left", "outer")
    names_a = ("X", "Y", "Z")
    renamings = (("lon", "lat", "lev"), ("a", "b", "c"), ("Y", "X", "Z"), ("x1", "x", "x2"))
    sigs = []
    # two- and three-name signatures, one or two arguments
    for p1, p2, q1, q2 in itertools.product(pos[:2], pos[:2], pos[:2], pos):
        sigs.append((p1, p2, q1, q2))
    cfgs = []
    for si in range(0, len(sigs) * 2, 1):
        for ri in range(len(renamings)):
            for consistent in (True, False):
                cfgs.append(("equiv", si, ri, consistent))
    if tier == "quick":
        cfgs = cfgs[::3]
    for si in range(len(sigs) * 2, len(sigs) * 2 + (8 if tier == "quick" else 48)):
        for ri in range(len(renamings)):
            for consistent in (True, False):
                cfgs.append(("equiv", si, ri, consistent))
    return cfgs


def _sig_text(si, names):
    pos = ("center", "left", "outer")
    combos = list(itertools.product(pos[:2], pos[:2], pos[:2], pos))
    three = si >= len(combos)
    p1, p2, q1, q2 = combos[(si * 7 if si >= 2 * len(combos) else si) % len(combos)]
    a, b, c = names
    if si >= 2 * len(combos):
        # names that occur only on the output side (two or three of them)
        k = si - 2 * len(combos)
        return (f"({a}:{p1})->({b}:{q1},{c}:{q2})", f"()->({a}:{p1},{b}:{q2})", f"({c}:{p2})->({a}:{q1}),({b}:{q2})", f"(),()->({b}:{p1},{a}:{p2},{c}:{q2})")[k % 4]
    if not three:
        return f"({a}:{p1},{b}:{p2})->({a}:{q1},{b}:{q2})"
    return f"({a}:{p1},{b}:{p2}),({c}:{q1})->({b}:{q2},{c}:{p1}),({a}:{q1})"


def run_equiv(cfg):
    from xgcm.grid_ufunc import _GridUFuncSignature as Sig

    _, si, ri, consistent = cfg
    renamings = (("lon", "lat", "lev"), ("a", "b", "c"), ("Y", "X", "Z"), ("x1", "x", "x2"))
    s1 = Sig.from_string(_sig_text(si, ("X", "Y", "Z")))
    names = renamings[ri]
    if not consistent:
        # swap two names on the output side only -> not a consistent renaming
        t = _sig_text(si, names)
        lhs, rhs = t.split("->")
        a, b = names[0], names[1]
        rhs = rhs.replace(a + ":", "\0").replace(b + ":", a + ":").replace("\0", b + ":")
        s2 = Sig.from_string(lhs + "->" + rhs)
    else:
        s2 = Sig.from_string(_sig_text(si, names))
    return (bool(s1.equivalent(s2)), bool(s2.equivalent(s1)))


# ------------------------------------------------------------------ driver (iii): parsed axis order
def parse_configs(tier):
    cfgs = []
    for names in (("X", "Y"), ("X", "Y", "Z"), ("lon", "lat", "depth", "time"), ("b", "a"), ("Z", "X", "Y", "T")):
        for order in (0, 1):
            cfgs.append(("comodo", names, order))
    for kind in ("2d", "2dv", "3d"):
        cfgs.append(("sgrid", kind, 0))
    return cfgs


def comodo_ds(names, order):
    coords = {}
    seq = list(names) if order == 0 else list(reversed(names))
    for i, ax in enumerate(seq):
        n = 2 + (i % 2)
        coords[f"{ax}_c"] = (f"{ax}_c", np.arange(n) + 0.5, {"axis": ax})
        coords[f"{ax}_g"] = (f"{ax}_g", np.arange(n) * 1.0, {"axis": ax, "c_grid_axis_shift": -0.5})
    return xr.Dataset(coords=coords)


def sgrid_ds(kind):
    attrs = {"cf_role": "grid_topology", "topology_dimension": 2 if kind != "3d" else 3}
    if kind in ("2d", "2dv"):
        attrs["node_dimensions"] = "xn yn"
        attrs["face_dimensions"] = "xf: xn (padding: both) yf: yn (padding: low)"
        if kind == "2dv":
            attrs["vertical_dimensions"] = "zf: zn (padding: none)"
    else:
        attrs["node_dimensions"] = "xn yn zn"
        attrs["volume_dimensions"] = "xf: xn (padding: both) yf: yn (padding: low) zf: zn (padding: none)"
    n = 3
    dv = {"grid": ((), np.int32(0), attrs), "xf": ("xf", np.arange(n) * 1.0), "xn": ("xn", np.arange(n - 1) * 1.0),
          "yf": ("yf", np.arange(n) * 1.0), "yn": ("yn", np.arange(n) * 1.0)}
    if kind != "2d":
        dv["zf"] = ("zf", np.arange(n) * 1.0)
        dv["zn"] = ("zn", np.arange(n + 1) * 1.0)
    return xr.Dataset(dv, attrs={"Conventions": "SGRID-0.3"})


def run_parse(cfg):
    from xgcm import Grid
    from xgcm.padding import pad

    if cfg[0] == "comodo":
        ds = comodo_ds(cfg[1], cfg[2])
        centers = {ax: f"{ax}_c" for ax in cfg[1]}
    else:
        ds = sgrid_ds(cfg[1])
        centers = {"X": "xf", "Y": "yf", "Z": "zf"}
    g = Grid(ds, periodic=False)
    axes = tuple(g.axes)
    # a call whose result depends on the order in which the Grid lists its axes: 2-D halo
    # corners under per-axis rules, padded over all axes at once
    names = sorted(g.axes)
    dims = [g.axes[a].coords["center"] for a in names]
    shape = [ds.sizes[d] for d in dims]
    da = xr.DataArray(np.arange(int(np.prod(shape)), dtype=float).reshape(shape) + 1, dims=dims)
    rules = ("extend", "fill", "extend", "fill")
    r = pad(da, g, {a: (1, 1) for a in names}, boundary={a: rules[i] for i, a in enumerate(names)}, fill_value=7.0)
    return digest(axes, repr(g), r.transpose(*dims).values)


# ------------------------------------------------------------------ driver (iv): metric partitions
MLAY = {"X": ("center", "left"), "Y": ("center", "left"), "Z": ("center", "left")}
MNS = {"X": 2, "Y": 2, "Z": 2}
MGR = M.MGrid(MLAY, MNS)
BLOCKS = (("X",), ("Y",), ("Z",), ("X", "Y"), ("Y", "Z"), ("X", "Z"))


def metric_configs(tier):
    cfgs = []
    regs = []
    for k in (2, 3, 4, 5, 6):
        for sub in itertools.combinations(range(len(BLOCKS)), k):
            covered = set().union(*[set(BLOCKS[i]) for i in sub])
            if covered == {"X", "Y", "Z"}:
                regs.append(sub)
    step = 3 if tier == "quick" else 1
    for ri, sub in enumerate(regs[::step]):
        for qi, q in enumerate((("X", "Y", "Z"), ("Z", "Y", "X"), ("Y", "X"), ("X", "Z"))):
            cfgs.append(("metric", sub, q))
    return cfgs


def run_metric(cfg):
    from xgcm import Grid

    _, sub, q = cfg
    pit = iter(M.primes(200))
    vs = [MGR.make_var("m_" + "".join(b), b, {a: "center" for a in b}, pit) for b in BLOCKS]
    ds = MGR.dataset(vs)
    metrics = permuted_dict({BLOCKS[i]: ["m_" + "".join(BLOCKS[i])] for i in sub}, "metrics")
    g = Grid(ds, coords=S.grid_coords(MLAY), periodic=False, autoparse_metadata=False, metrics=metrics)
    arr = xr.DataArray(np.arange(8, dtype=float).reshape(2, 2, 2) + 1, dims=[S.dimname(a, "center") for a in ("X", "Y", "Z")])
    m = g.get_metric(arr, q)
    it = g.integrate(arr, list(q))
    # the same choice of metric product reached through the weighted stencil operations
    w1 = g.interp(arr, q[0], to="left", boundary="extend", metric_weighted=tuple(q))
    w2 = g.diff(arr, q[-1], to="left", boundary="extend", metric_weighted={q[-1]: list(q)})
    # dimension *order* and raw bytes are part of the outcome (byte-identical outputs are demanded)
    return digest(tuple(m.dims), m.values, tuple(it.dims), it.values, tuple(w1.dims), w1.values, tuple(w2.dims), w2.values)


# ------------------------------------------------------------------ driver (v): pad on simple grids
SIMPLE_RULES = (("fill", "fill", "fill"), ("fill", "extend", "fill"), ("extend", "fill", "periodic"), ("periodic", "fill", "fill"))
SIMPLE_FILLS = ((-2.0, -1.0, 4.0), (0.0, 3.0, 0.0))


def simple_configs(tier):
    cfgs = []
    for nax in (2, 3):
        for ri in range(len(SIMPLE_RULES)):
            for fi in range(len(SIMPLE_FILLS)):
                for wi, w in enumerate(((1, 1), (1, 0), (2, 1))):
                    cfgs.append(("simple", nax, ri, fi, wi))
    return cfgs


def run_simple(cfg):
    from xgcm import Grid
    from xgcm.padding import pad

    _, nax, ri, fi, wi = cfg
    axes = ("X", "Y", "Z")[:nax]
    w = ((1, 1), (1, 0), (2, 1))[wi]
    n = 2
    ds = xr.Dataset(coords={f"{a.lower()}c": (f"{a.lower()}c", np.arange(n) + 0.5) for a in axes} | {f"{a.lower()}g": (f"{a.lower()}g", np.arange(n) * 1.0) for a in axes})
    g = Grid(ds, coords={a: {"center": f"{a.lower()}c", "left": f"{a.lower()}g"} for a in axes}, periodic=False, autoparse_metadata=False)
    dims = [f"{a.lower()}c" for a in axes]
    da = xr.DataArray(np.arange(n ** nax, dtype=float).reshape((n,) * nax) + 1, dims=dims)
    # the listing order of boundary_width is an argument of the call (it fixes the order of padding on a
    # simple grid), so it is kept fixed here: the result, corner cells included, must then be unique
    bw = {a: w for a in axes}
    r = pad(da, g, bw, boundary={a: SIMPLE_RULES[ri][i] for i, a in enumerate(axes)}, fill_value={a: SIMPLE_FILLS[fi][i] for i, a in enumerate(axes)})
    return digest(tuple(r.dims), r.values)


# ------------------------------------------------------------------ driver (vi): accept / reject of link tables
def table_configs(tier):
    """three-face tables, consistent and inconsistent: the verdict must not depend on the listing order"""
    base = T.table_of([((0, "X", 1), (1, "X", 0))], 3)
    cfgs = []
    claims = [((2, "X", 0), (0, "X", False)), ((2, "X", 1), (1, "X", False)), ((2, "Y", 0), (0, "X", True)), ((2, "X", 0), (1, "X", True)), None]
    for ci in range(len(claims)):
        cfgs.append(("table", ci))
    return cfgs


def run_table(cfg):
    from xgcm import Grid

    claims = [((2, "X", 0), (0, "X", False)), ((2, "X", 1), (1, "X", False)), ((2, "Y", 0), (0, "X", True)), ((2, "X", 0), (1, "X", True)), None]
    table = {f: {A: list(pair) for A, pair in ax.items()} for f, ax in T.table_of([((0, "X", 1), (1, "X", 0))], 3).items()}
    claim = claims[cfg[1]]
    if claim is not None:
        (f, A, side), link = claim
        table.setdefault(f, {}).setdefault(A, [None, None])[side] = link
    table = {f: {A: tuple(pair) for A, pair in ax.items()} for f, ax in table.items()}
    N = 2
    ds = xr.Dataset(coords={"x": ("x", np.arange(N)), "xl": ("xl", np.arange(N) - 0.5), "y": ("y", np.arange(N)),
                            "yl": ("yl", np.arange(N) - 0.5), "face": ("face", [0, 1, 2])})
    listed = permuted_dict({f: permuted_dict(ax, "axes-of-face") for f, ax in table.items()}, "faces")
    try:
        Grid(ds, coords={"X": {"center": "x", "left": "xl"}, "Y": {"center": "y", "left": "yl"}}, face_connections={"face": listed},
             periodic=False, autoparse_metadata=False)
        return "accepted"
    except Exception:
        return "rejected"


# ------------------------------------------------------------------ driver (vii): multi-axis grid ufuncs
UF_SIGS = (
    ("(X:center,Y:center)->(X:left,Y:left)", ("X", "Y")),
    ("(lon:center,lat:center)->(lon:left,lat:left)", ("lon", "lat")),
    ("(b:center,a:center)->(b:left,a:left)", ("b", "a")),
)
UF_WIDTHS = (((1, 0), (1, 0)), ((1, 1), (2, 0)))
UF_RULES = (("fill", "fill"), ("fill", "extend"), ("extend", "fill"))


def ufunc_configs(tier):
    cfgs = []
    for si in range(len(UF_SIGS)):
        for wi in range(len(UF_WIDTHS)):
            for ri in range(len(UF_RULES)):
                for route in ("apply", "decorated"):
                    for nax in (2, 3):
                        if tier == "quick" and (si + wi + ri + (route == "apply") + nax) % 2:
                            continue
                        cfgs.append(("ufunc", si, wi, ri, route, nax))
    return cfgs


def run_ufunc(cfg):
    from xgcm import Grid
    from xgcm.grid_ufunc import apply_as_grid_ufunc, as_grid_ufunc

    _, si, wi, ri, route, nax = cfg
    axes = ("X", "Y", "Z")[:nax]
    n = 3
    ds = xr.Dataset(coords={f"{a.lower()}c": (f"{a.lower()}c", np.arange(n) + 0.5) for a in axes} | {f"{a.lower()}g": (f"{a.lower()}g", np.arange(n) * 1.0) for a in axes})
    g = Grid(ds, coords={a: {"center": f"{a.lower()}c", "left": f"{a.lower()}g"} for a in axes}, periodic=False, autoparse_metadata=False)
    dims = [f"{a.lower()}c" for a in axes][::-1]
    da = xr.DataArray(np.arange(n ** nax, dtype=float).reshape((n,) * nax) ** 2 + 1, dims=dims)
    sig, (d1, d2) = UF_SIGS[si]
    (w1, w2) = UF_WIDTHS[wi]
    bw = {d1: w1, d2: w2}
    got = []

    def f(a):
        got.append(np.array(a))
        return a[..., w1[0]: a.shape[-2] - w1[1], w2[0]: a.shape[-1] - w2[1]]

    kw = dict(boundary={"X": UF_RULES[ri][0], "Y": UF_RULES[ri][1]}, fill_value={"X": 1.0, "Y": 2.0})
    if route == "apply":
        r = apply_as_grid_ufunc(f, da, axis=[("X", "Y")], grid=g, signature=sig, boundary_width=bw, **kw)
    else:
        r = as_grid_ufunc(signature=sig, boundary_width=bw)(f)(g, da, axis=[("X", "Y")], **kw)
    return digest(tuple(r.dims), r.values, *got)


# ------------------------------------------------------------------ driver (viii): moves along several axes at once
def move_configs(tier):
    cfgs = []
    for nax in (2, 3):
        for ri in range(3):
            for what in ("interp_like", "get_metric", "interp", "derivative-chain"):
                cfgs.append(("move", nax, ri, what))
    return cfgs


def run_move(cfg):
    from xgcm import Grid

    _, nax, ri, what = cfg
    axes = ("X", "Y", "Z")[:nax]
    n = 3
    ds = xr.Dataset(coords={f"{a.lower()}c": (f"{a.lower()}c", np.arange(n) + 0.5) for a in axes} | {f"{a.lower()}g": (f"{a.lower()}g", np.arange(n) * 1.0) for a in axes})
    gdims = [f"{a.lower()}g" for a in axes]
    cdims = [f"{a.lower()}c" for a in axes]
    # a cell measure known on the corners only
    ds["corner_measure"] = (gdims, (np.arange(n ** nax, dtype=float).reshape((n,) * nax) + 1) ** 1.5)
    g = Grid(ds, coords={a: {"center": f"{a.lower()}c", "left": f"{a.lower()}g"} for a in axes}, periodic=False, autoparse_metadata=False,
             metrics={tuple(axes): ["corner_measure"]},
             boundary={a: ("fill", "extend", "fill")[(i + ri) % 3] for i, a in enumerate(axes)},
             fill_value={a: (3.0, 0.0, -7.0)[i] for i, a in enumerate(axes)})
    da = xr.DataArray(np.arange(n ** nax, dtype=float).reshape((n,) * nax) ** 2 + 1, dims=cdims)
    like = xr.DataArray(np.zeros((n,) * nax), dims=gdims)
    rules = {a: ("fill", "extend", "fill")[(i + ri) % 3] for i, a in enumerate(axes)}
    fills = {a: (3.0, 0.0, -7.0)[i] for i, a in enumerate(axes)}
    if what == "interp_like":
        r = g.interp_like(da, like, boundary=rules, fill_value=fills)
    elif what == "get_metric":
        r = g.get_metric(da, axes)
    elif what == "interp":
        r = g.interp(da, list(axes), boundary=rules, fill_value=fills)
    else:
        r = g.diff(g.interp(da, list(axes)), list(axes))
    return digest(tuple(r.dims), r.values)


# ------------------------------------------------------------------ driver (ix): default shifts, three-face strips
def misc_configs(tier):
    cfgs = []
    for li in range(4):
        for route in ("explicit", "comodo"):
            cfgs.append(("defaults", li, route))
    for ti in range(3):
        for what in ("pad", "diff", "interp"):
            cfgs.append(("strip", ti, what))
    for ri in range(3):
        for what in ("pad", "ufunc"):
            cfgs.append(("unlinked", ri, what))
    for k in (2, 3):
        for q in ("get_metric", "integrate"):
            cfgs.append(("setm", k, q))
    return cfgs


DEF_LAYOUTS = (("center", "left", "right"), ("center", "outer", "inner"), ("center", "left", "right", "outer", "inner"), ("center", "right", "outer"))
STRIPS = (
    # face 0 -X-> face 1 -X-> lower Y edge of face 2; every face lists only the axes along which it has a neighbour
    {0: {"X": (None, (1, "X", False))}, 1: {"X": ((0, "X", False), (2, "Y", False))}, 2: {"Y": ((1, "X", False), None)}},
    {0: {"Y": (None, (1, "Y", False))}, 1: {"Y": ((0, "Y", False), (2, "X", False))}, 2: {"X": ((1, "Y", False), None)}},
    {0: {"X": ((2, "Y", True), (1, "X", False))}, 1: {"X": ((0, "X", False), None)}, 2: {"Y": ((0, "X", True), None)}},
)


def run_misc(cfg):
    from xgcm import Grid
    from xgcm.padding import pad

    if cfg[0] == "defaults":
        # an axis with the centre and several other positions: where a shift without `to` goes is documented, not left to chance
        _, li, route = cfg
        lay = DEF_LAYOUTS[li]
        n = 3
        shift = {"left": -0.5, "right": 0.5, "outer": None, "inner": None}
        coords = {}
        for p in lay:
            d = "x_" + p[0]
            m = S.pos_len(p, n)
            attrs = {"axis": "X"}
            if p != "center":
                attrs["c_grid_axis_shift"] = shift[p] if shift[p] is not None else (-0.5 if p == "outer" else 0.5)
            coords[d] = (d, np.arange(m) * 1.0, attrs)
        ds = xr.Dataset(coords=coords)
        if route == "comodo":
            g = Grid(ds, periodic=False, boundary="extend")
        else:
            g = Grid(ds, coords={"X": {p: "x_" + p[0] for p in lay}}, periodic=False, boundary="extend", autoparse_metadata=False)
        da = xr.DataArray(np.arange(n, dtype=float) ** 2 + 1, dims=["x_c"])
        outs = [repr(g)]
        for op in ("diff", "interp", "cumsum", "min"):
            r = getattr(g, op)(da, "X")
            outs += [tuple(r.dims), np.asarray(r.values, dtype=float)]
        return digest(*outs)
    if cfg[0] == "setm":
        # several metrics added in one call to an axis set that already has one; then a request at a position none of
        # them sits at (answered by interpolating a registered one)
        _, k, q = cfg
        n = 3
        ds = xr.Dataset(coords={"xc": ("xc", np.arange(n) + 0.5), "xl": ("xl", np.arange(n) * 1.0), "xo": ("xo", np.arange(n + 1) * 1.0),
                                "xr": ("xr", np.arange(n) + 1.0), "xi": ("xi", np.arange(n - 1) + 1.0)})
        ds["m_l"] = ("xl", [2.0, 3.0, 5.0])
        ds["m_o"] = ("xo", [7.0, 11.0, 13.0, 17.0])
        ds["m_r"] = ("xr", [19.0, 23.0, 29.0])
        ds["m_i"] = ("xi", [31.0, 37.0])
        g = Grid(ds, coords={"X": {"center": "xc", "left": "xl", "outer": "xo", "right": "xr", "inner": "xi"}}, periodic=False, boundary="extend",
                 autoparse_metadata=False, metrics={("X",): ["m_i"]})
        g.set_metrics(("X",), ["m_l", "m_o", "m_r"][:k])
        da = xr.DataArray(np.arange(n, dtype=float) + 1, dims=["xc"])
        r = g.get_metric(da, ("X",)) if q == "get_metric" else g.integrate(da, "X")
        return digest(tuple(r.dims), r.values)
    if cfg[0] == "unlinked":
        # two tiles joined along X; the grid has two more axes (Y, Z) that no link mentions: a halo requested along both
        # of them at once, with per-axis rules and fill values
        from xgcm.grid_ufunc import apply_as_grid_ufunc

        _, ri, what = cfg
        n = 2
        ds = xr.Dataset(coords={"x": ("x", np.arange(n) + 0.5), "xl": ("xl", np.arange(n) * 1.0), "y": ("y", np.arange(n) + 0.5), "yl": ("yl", np.arange(n) * 1.0),
                                "z": ("z", np.arange(n) + 0.5), "zl": ("zl", np.arange(n) * 1.0), "face": ("face", [0, 1])})
        fc = permuted_dict({0: {"X": (None, (1, "X", False))}, 1: {"X": ((0, "X", False), None)}}, "faces")
        g = Grid(ds, coords={"X": {"center": "x", "left": "xl"}, "Y": {"center": "y", "left": "yl"}, "Z": {"center": "z", "left": "zl"}},
                 face_connections={"face": fc}, periodic=False, autoparse_metadata=False)
        da = xr.DataArray(np.arange(2 * n ** 3, dtype=float).reshape(2, n, n, n) + 1, dims=["face", "z", "y", "x"])
        rules = (("fill", "fill"), ("fill", "extend"), ("extend", "fill"))[ri]
        kw = dict(boundary={"X": "extend", "Y": rules[0], "Z": rules[1]}, fill_value={"X": 0.0, "Y": -1.0, "Z": -2.0})
        if what == "pad":
            r = pad(da, g, {"Y": (1, 1), "Z": (1, 0)}, **kw)
            return digest(tuple(r.dims), r.values)
        got = []

        def f(a):
            got.append(np.array(a))
            return a[..., 1:-1, 1:]

        r = apply_as_grid_ufunc(f, da, axis=[("Y", "Z")], grid=g, signature="(Y:center,Z:center)->(Y:center,Z:center)",
                                boundary_width={"Y": (1, 1), "Z": (1, 0)}, **kw)
        return digest(tuple(r.dims), r.values, *got)
    _, ti, what = cfg
    table = STRIPS[ti]
    N = 3
    ds = xr.Dataset(coords={"x": ("x", np.arange(N) + 0.5), "xl": ("xl", np.arange(N) * 1.0), "y": ("y", np.arange(N) + 0.5),
                            "yl": ("yl", np.arange(N) * 1.0), "face": ("face", [0, 1, 2])})
    listed = permuted_dict({f: permuted_dict(ax, "axes-of-face") for f, ax in table.items()}, "faces")
    g = Grid(ds, coords={"X": {"center": "x", "left": "xl"}, "Y": {"center": "y", "left": "yl"}}, face_connections={"face": listed},
             periodic=False, boundary="extend", autoparse_metadata=False)
    ax = "Y" if ti == 1 else "X"
    dc = xr.DataArray(np.arange(3 * N * N, dtype=float).reshape(3, N, N) ** 2, dims=["face", "y", "x"])
    dl = xr.DataArray(np.sqrt(np.arange(3 * N * N, dtype=float)).reshape(3, N, N), dims=["face", "yl" if ax == "Y" else "y", "x" if ax == "Y" else "xl"])
    if what == "pad":
        r = pad(dc, g, {ax: (1, 1)}, boundary="extend")
    elif what == "diff":
        r = g.diff(dl, ax)
    else:
        r = g.interp(dc, ax)
    return digest(tuple(r.dims), r.values)


DRIVERS = {"pad": run_pad, "equiv": run_equiv, "comodo": run_parse, "sgrid": run_parse, "metric": run_metric, "simple": run_simple, "table": run_table, "ufunc": run_ufunc, "move": run_move, "defaults": run_misc, "strip": run_misc, "unlinked": run_misc, "setm": run_misc}


def all_configs(tier):
    return pad_configs(tier) + sig_pairs(tier) + parse_configs(tier) + metric_configs(tier) + simple_configs(tier) + table_configs(tier) + ufunc_configs(tier) + move_configs(tier) + misc_configs(tier)


def cfg_json(cfg):
    return json.loads(json.dumps(cfg))


def cfg_tuple(c):
    return tuple(cfg_tuple(x) if isinstance(x, list) else x for x in c)


def explore_cfg(rec, cfg, tier):
    nondet.install()
    run = DRIVERS[cfg[0]]
    res = explorer.explore(lambda: outcome_of(lambda: run(cfg)), bound=BOUNDS[tier]["deviations"], max_exec=6000)
    outs = res["outcomes"]
    rec.case(cfg, res["executions"] > 1, sample=dict(cfg=cfg_json(cfg), executions=res["executions"], outcomes=len(outs)), calls=res["executions"])
    rec.transitions += res["choice_points"]
    rec.traces += res["executions"]
    if res["capped"]:
        rec.cap_hit = True
    for o in outs:
        rec.state((cfg, o))
        rec.outcomes[cfg[0] + ":" + ("raise" if str(o).startswith("raise") else "value")] += 1
    rec.push(repr(("explored", cfg)), sorted(map(str, outs)))
    if len(outs) > 1:
        traces = {str(o): list(t[0]) for o, t in outs.items()}
        rec.violation("iteration-order", f"{cfg[0]}:several-outcomes", dict(cfg=cfg_json(cfg)), "exactly one outcome",
                      dict(outcomes=len(outs), traces=traces))


# ------------------------------------------------------------------ literal seeds
def seed_subset(tier):
    cfgs = all_configs(tier)
    by = {}
    for c in cfgs:
        by.setdefault(c[0], []).append(c)
    out = []
    for k, v in by.items():
        out += v[:: max(1, len(v) // 12)][:12]
    return out


def seed_run_main():
    """entry point of the fresh interpreter (no rebinding): prints {repr(cfg): outcome}"""
    tier = sys.argv[2]
    res = {}
    for cfg in seed_subset(tier):
        res[repr(cfg)] = str(outcome_of(lambda: DRIVERS[cfg[0]](cfg)))
    print("SEEDRUN " + json.dumps(res))


def shards(tier, seed):
    cfgs = all_configs(tier)
    sh = [("explore", cfgs[i: i + 6]) for i in range(0, len(cfgs), 6)]
    sh += [("seed", s) for s in range(BOUNDS[tier]["seeds"])]
    sh.append(("ast",))
    return sh


ALLOWED_UNOWNED = {("grid_ufunc.py", "as_grid_ufunc", "set-display"), ("grid_ufunc.py", "as_grid_ufunc", "dict-view-algebra")}


def run_shard(shard, tier, seed, rec):
    if shard[0] == "explore":
        for cfg in shard[1]:
            explore_cfg(rec, cfg, tier)
    elif shard[0] == "seed":
        env = dict(os.environ, PYTHONHASHSEED=str(shard[1]))
        p = subprocess.run([sys.executable, "-m", "xmc.checks.c12", "--seed-run", tier], cwd=VERIF, env=env, capture_output=True, text=True)
        line = [l for l in p.stdout.splitlines() if l.startswith("SEEDRUN ")]
        if p.returncode != 0 or not line:
            raise RuntimeError("seed run failed: " + p.stderr[-800:])
        rec.push(repr(("seedrun", shard[1])), json.loads(line[0][8:]))
        rec.traces += len(json.loads(line[0][8:]))
    else:
        un = nondet.unowned_sources()
        rec.push("unowned", [list(u) for u in un])


def finalize(total, tier, seed):
    seedruns = {k: v for k, v in total.frontier.items() if k.startswith("('seedrun'")}
    explored = {k: v for k, v in total.frontier.items() if k.startswith("('explored'")}
    witnessed = 0
    per_cfg = {}
    for k, res in sorted(seedruns.items()):
        for cfgr, out in res.items():
            per_cfg.setdefault(cfgr, {}).setdefault(out, []).append(k)
    for cfgr, outs in sorted(per_cfg.items()):
        cfg = eval(cfgr)
        if len(outs) > 1:
            total.violation("literal-seeds", f"{cfg[0]}:seed-dependent", dict(cfg=cfg_json(cfg), seeds=True), "identical output under every PYTHONHASHSEED",
                            {o: v[:3] for o, v in outs.items()})
        ex = explored.get(repr(("explored", cfg)))
        if ex is not None:
            for o in outs:
                if o in ex:
                    witnessed += 1
                else:
                    total.violation("conformance", f"{cfg[0]}:real-outcome-not-explored", dict(cfg=cfg_json(cfg), seeds=True), ex, o)
    un = [tuple(u) for u in total.frontier.get("unowned", [])]
    new_un = [u for u in un if u not in ALLOWED_UNOWNED]
    for u in new_un:
        print(f"NOTE: C12 unordered collection not reachable by rebinding (covered by literal seeds only): {u}")
    return dict(literal_seed_runs=len(seedruns), seed_configs=len(per_cfg), explored_outcomes_witnessed_by_seeds=witnessed,
                unowned_set_sources=[list(u) for u in un], unowned_not_allowlisted=[list(u) for u in new_un])


def replay_case(case, seed, rec):
    cfg = cfg_tuple(case["cfg"])
    if case.get("seeds"):
        outs = {}
        for s in range(12):
            env = dict(os.environ, PYTHONHASHSEED=str(s))
            code = ("import sys; sys.path.insert(0, %r); from xmc.checks import c12; "
                    "print('OUT', c12.outcome_of(lambda: c12.DRIVERS[%r](%r)))" % (VERIF, cfg[0], cfg))
            p = subprocess.run([sys.executable, "-c", code], cwd=VERIF, env=env, capture_output=True, text=True)
            o = [l for l in p.stdout.splitlines() if l.startswith("OUT ")]
            outs.setdefault(o[0] if o else "fail:" + p.stderr[-200:], []).append(s)
        if len(outs) > 1:
            rec.violation("literal-seeds", f"{cfg[0]}:seed-dependent", case, "identical output under every PYTHONHASHSEED", {k: v for k, v in outs.items()})
        return
    explore_cfg(rec, cfg, "quick")


if __name__ == "__main__":
    if len(sys.argv) > 2 and sys.argv[1] == "--seed-run":
        seed_run_main()
