"""C19  Outputs are labelled with the grid's coordinates for the new position.

Grid datasets carrying every subset (up to a size) of a pool of 0-D / 1-D / 2-D coordinates on a
mix of positions, with and without dimension coordinates x operations covering the padded path,
the unpadded path and cumsum's own path x keep_coords x inputs carrying the dataset's coordinates
or none.  Oracle: the labelling rule computed from the dataset and the result's dims.  Label
independence: the same data under different input labels gives identical values.
"""
import itertools
import warnings

import numpy as np
import xarray as xr

from ..core import exc_sig

PID = "C19"
LEVEL = "exploration"
TECHNIQUE = "bounded exhaustive enumeration of coordinate pools x operation paths x keep_coords x carry, real Grid ops against a labelling rule computed from the grid dataset"
RULE = (
    "case = (coordinate subset, dimension coordinates yes/no, op, from, to, carry, keep_coords); non-trivial = the dataset "
    "carries at least one non-dimension coordinate"
)
SPACE = {
    "quick": "all subsets of <= 3 of 9 pool coordinates x {all, none, only centre, all but centre} dimension coordinates x 10 (op, shift) paths x carry all/none/only dimension coordinates/relabelled x keep_coords T/F; Grids with and without metrics held as data variables; each path also as the first valid call of a Grid after two calls with misfitting inputs; subsets of <= 2 on a single-cell axis (length-0 inner position) and with an empty untouched dimension",
    "thorough": "subsets of <= 4",
}
BOUNDS = {"quick": {"k": 3}, "thorough": {"k": 4}}
ASSUMPTIONS = [
    "inputs either carry the dataset's own coordinates or none (the statement's scope); a third variant carries different labels only to check that values do not depend on them",
]
n = 3
POSDIM = {"center": "xc", "left": "xg", "outer": "xo", "inner": "xi"}
LEN = {"xc": n, "xg": n, "xo": n + 1, "xi": n - 1, "t": 2}
# other sizes: a single cell (its inner position has length 0) and an empty untouched dimension
SIZES = {"std": (3, 2), "one-cell": (1, 2), "empty-t": (3, 0)}


def lens(sizes):
    m, nt = SIZES[sizes]
    return {"xc": m, "xg": m, "xo": m + 1, "xi": m - 1, "t": nt}

POOL = ["s0", "c1_xc", "c1_xg", "c1_xo", "c1_t", "c2_xc", "c2_xg", "c2_xi", "c2_xo"]
CASES = [("diff", "center", "left"), ("interp", "center", "outer"), ("max", "outer", "center"), ("min", "center", "inner"),
         ("interp", "left", "center"), ("diff", "inner", "center"),
         ("cumsum", "center", "left"), ("cumsum", "center", "outer"), ("cumsum", "left", "center"), ("cumsum", "outer", "center")]


def build(pool, dimcoords, sizes="std"):
    LEN = lens(sizes)
    ds = xr.Dataset()
    for d, l in LEN.items():
        ds["v_" + d] = ((d,), np.zeros(l))
    if dimcoords:
        for d, l in LEN.items():
            # dimcoords: True = every dimension has a coordinate; "center" = only xc and t; "faces" = all but xc
            if dimcoords == "center" and d not in ("xc", "t"):
                continue
            if dimcoords == "faces" and d == "xc":
                continue
            ds = ds.assign_coords({d: (d, np.arange(l) * 1.0 + {"xc": 0.5, "xg": 0, "xo": 0, "xi": 1, "t": 100}[d], {"units": "u_" + d})})
    for c in pool:
        if c == "s0":
            ds = ds.assign_coords(s0=((), 7.0, {"a": 1}))
        elif c.startswith("c1_"):
            d = c[3:]
            ds = ds.assign_coords({c: ((d,), np.arange(LEN[d]) * 3.0 + 1, {"nm": c})})
        elif c.startswith("c2_"):
            d = c[3:]
            ds = ds.assign_coords({c: (("t", d), np.arange(LEN["t"] * LEN[d]).reshape(LEN["t"], LEN[d]) * 1.0, {"nm": c})})
    return ds


def make_grid(ds, dimcoords):
    """for two of the four dimension-coordinate modes the Grid also has metrics: data variables of the dataset, which are
    not coordinates and are never attached to a result"""
    from xgcm import Grid

    kw = {}
    if dimcoords in (True, "faces"):
        kw["metrics"] = {("X",): ["v_xc", "v_xg"]}
    with warnings.catch_warnings():
        warnings.simplefilter("ignore")
        return Grid(ds, coords={"X": POSDIM}, periodic=False, autoparse_metadata=False, **kw)


def run_case(rec, pool, dimcoords, ci, carry, kc, seed, g=None, ds=None, sizes="std", after_refused=False):
    from xgcm import Grid

    op, fr, to = CASES[ci]
    case = dict(pool=list(pool), dimcoords=dimcoords, ci=ci, carry=carry, kc=kc, sizes=sizes, after_refused=after_refused)
    LEN = lens(sizes)
    if ds is None or after_refused:
        ds = build(pool, dimcoords, sizes)
        g = make_grid(ds, dimcoords)
    din, dout = POSDIM[fr], POSDIM[to]
    if LEN[din] == 0:
        return  # nothing to extend: an empty shifted dimension is legitimately refused under 'extend'
    bnd = "fill" if sizes == "one-cell" else "extend"  # a single cell leaves nothing to extend from on some paths
    vals = ((np.arange(LEN["t"] * LEN[din]) * 5 + seed) % 11).astype(float).reshape(LEN["t"], LEN[din])
    if after_refused:
        # the first calls this Grid sees are ones whose input does not fit the dataset (another length
        # along the untouched / the shifted dimension); whatever they do, the valid call that follows is
        # labelled by the same rule
        for bad in (xr.DataArray(np.zeros((LEN["t"] + 1, LEN[din])), dims=["t", din], name="foo"),
                    xr.DataArray(np.zeros((LEN["t"], LEN[din] + 2)), dims=["t", din], name="foo")):
            try:
                with warnings.catch_warnings():
                    warnings.simplefilter("ignore")
                    getattr(g, op)(bad, "X", to=to, keep_coords=kc, boundary=bnd)
                rec.counters["misfit-input-accepted"] += 1
            except Exception:
                rec.counters["misfit-input-refused"] += 1
    # the input's name: usually "foo"; in part of the cases the name of one of the dataset's coordinates (the result of an
    # earlier operation on that coordinate): the name is kept and the coordinate is attached all the same
    fitting = [c for c in pool if not c.endswith("_" + din)]
    in_name = fitting[0] if fitting and (ci + len(pool) + (1 if kc else 0)) % 3 == 0 else "foo"
    da = xr.DataArray(vals, dims=["t", din], name=in_name)
    if carry == "own":
        da = da.assign_coords({c: ds.coords[c] for c in ds.coords if set(ds.coords[c].dims) <= set(da.dims)})
    elif carry == "dims-only":
        # only the dataset's dimension coordinates (what a result of an earlier operation with keep_coords=False carries)
        da = da.assign_coords({c: ds.coords[c].variable for c in ds.coords if c in da.dims})
    elif carry == "other":
        # different labels on the input's own dimensions (only to check label independence)
        da = da.assign_coords({din: (din, np.arange(LEN[din])[::-1] * 10.0 - 3), "t": ("t", [5.0, -5.0][: LEN["t"]])})
    rec.case((tuple(pool), dimcoords, ci, carry, kc, sizes, after_refused), len(pool) > 0, sample=case)
    try:
        with warnings.catch_warnings():
            warnings.simplefilter("ignore")
            # keep_coords=False is the documented default: left out in part of the cases
            kckw = {} if (not kc and (ci + len(pool)) % 2) else dict(keep_coords=kc)
            if kc:
                # a true flag that is not the Python singleton (a NumPy boolean, 1)
                kckw = dict(keep_coords=(True, np.True_, 1)[(ci + len(pool)) % 3])
            r = getattr(g, op)(da, "X", to=to, boundary=bnd, **kckw)
            base = getattr(g, op)(xr.DataArray(vals, dims=["t", din], name=in_name), "X", to=to, boundary=bnd, **kckw)
    except Exception as e:
        rec.violation("labels", "raise:" + exc_sig(e), case, "array", f"{type(e).__name__}: {e}"[:200])
        return
    if not np.array_equal(r.values, base.values, equal_nan=True) or r.dims != base.dims:
        rec.violation("label-independence", "values-depend-on-input-labels", case, base.values, r.values)
        return
    if r.dims != ("t", dout):
        rec.violation("labels", "dims", case, ["t", dout], list(r.dims))
        return
    if carry == "other":
        return
    exp = {}
    for c in ds.coords:
        v = ds.coords[c]
        if not set(v.dims) <= set(r.dims):
            continue
        if c in r.dims or kc:
            exp[c] = v
    if r.name != in_name:
        rec.violation("labels", "name-not-kept", case, in_name, r.name)
        return
    stale = [str(c) for c in r.coords if din in r.coords[c].dims]
    if stale:
        rec.violation("labels", "stale-coordinate-of-abandoned-dimension", case, [], stale)
        return
    if set(r.coords) != set(exp):
        extra, missing = sorted(map(str, set(r.coords) - set(exp))), sorted(map(str, set(exp) - set(r.coords)))
        cls = "coordinate-set"
        if missing and dout in missing:
            cls = "new-dimension-coordinate-missing"
        elif missing and any(m in r.dims for m in missing):
            cls = "untouched-dimension-coordinate-missing"
        elif extra:
            cls = "extra-coordinate" + ("-despite-keep_coords-false" if not kc else "")
        elif missing:
            cls = "fitting-coordinate-not-attached"
        rec.violation("labels", cls, case, sorted(map(str, exp)), sorted(map(str, r.coords)))
        return
    for c in exp:
        rc = r.coords[c]
        if not (np.array_equal(rc.values, exp[c].values) and rc.dims == exp[c].dims):
            rec.violation("labels", "coordinate-values" + (":new-dimension" if c == dout else ""), dict(case, coord=str(c)), exp[c].values, rc.values)
            return
        if dict(rc.attrs) != dict(exp[c].attrs):
            rec.violation("labels", "coordinate-attrs", dict(case, coord=str(c)), dict(exp[c].attrs), dict(rc.attrs))
            return


def run_faces(rec, seed):
    """the same labelling rule on a face-connected grid (padded shifts go through the per-face assembly)"""
    from xgcm import Grid

    N = 3
    ds = xr.Dataset(coords={"x": ("x", np.arange(N) + 0.5, {"units": "ux"}), "xl": ("xl", np.arange(N) * 1.0), "y": ("y", np.arange(N) + 0.5),
                            "yl": ("yl", np.arange(N) * 1.0, {"units": "uyl"}), "face": ("face", [0, 1]), "t": ("t", [10.0, 20.0])})
    ds = ds.assign_coords(depth=(("face", "y", "x"), np.arange(2 * N * N).reshape(2, N, N) * 1.0), area_l=(("face", "y", "xl"), np.ones((2, N, N))), s0=((), 3.0),
                          corner=(("yl", "xl"), np.arange(N * N).reshape(N, N) * 2.0), lat_l=(("yl",), np.arange(N) * 3.0))
    fc = {"face": {0: {"X": (None, (1, "X", False)), "Y": ((1, "Y", False), None)}, 1: {"X": ((0, "X", False), None), "Y": (None, (0, "Y", False))}}}
    with warnings.catch_warnings():
        warnings.simplefilter("ignore")
        g = Grid(ds, coords={"X": {"center": "x", "left": "xl"}, "Y": {"center": "y", "left": "yl"}}, face_connections=fc, periodic=False,
                 boundary="extend", autoparse_metadata=False)
    vals = ((np.arange(2 * 2 * N * N) * 5 + seed) % 17).astype(float).reshape(2, 2, N, N)
    for op in ("diff", "interp", "min", "max"):
        for ax, din, dout in (("X", "x", "xl"), ("Y", "y", "yl"), (["X", "Y"], None, None), (("Y", "X"), None, None)):
            for carry in ("own", "none"):
                for kc in (True, False):
                    case = dict(faces=True, op=op, ax=ax if isinstance(ax, str) else list(ax), carry=carry, kc=kc)
                    da = xr.DataArray(vals, dims=["t", "face", "y", "x"], name="foo")
                    if carry == "own":
                        da = da.assign_coords({c: ds.coords[c] for c in ds.coords if set(ds.coords[c].dims) <= set(da.dims)})
                    rec.case(("faces", op, str(ax), carry, kc), True, sample=case)
                    try:
                        with warnings.catch_warnings():
                            warnings.simplefilter("ignore")
                            r = getattr(g, op)(da, ax, to="left", keep_coords=kc)
                    except Exception as e:
                        rec.violation("labels-faces", "raise:" + exc_sig(e), case, "array", f"{type(e).__name__}: {e}"[:200])
                        continue
                    # (several axes in one call: every named axis moves, and keep_coords holds for the whole call)
                    ren = {din: dout} if isinstance(ax, str) else {"x": "xl", "y": "yl"}
                    edims = tuple(ren.get(d, d) for d in da.dims)
                    if r.dims != edims:
                        rec.violation("labels-faces", "dims", case, list(edims), list(r.dims))
                        continue
                    if r.name != "foo":
                        rec.violation("labels-faces", "name-not-kept", case, "foo", r.name)
                        continue
                    exp = {c: v for c, v in ds.coords.items() if set(v.dims) <= set(r.dims) and (c in r.dims or kc)}
                    if set(r.coords) != set(exp):
                        rec.violation("labels-faces", "coordinate-set", case, sorted(map(str, exp)), sorted(map(str, r.coords)))
                        continue
                    for c in exp:
                        if not np.array_equal(r.coords[c].values, exp[c].values) or dict(r.coords[c].attrs) != dict(exp[c].attrs):
                            rec.violation("labels-faces", "coordinate-values", dict(case, coord=str(c)), exp[c].values, r.coords[c].values)
                            break


def run_extra(rec, seed):
    """(a) a Grid parsed from COMODO metadata whose shift attribute is stored as text: results are labelled with the
    dataset's own coordinates (values and attributes);  (b) a grid ufunc with two outputs on different positions and
    keep_coords=False: every output carries its own dimension coordinates and nothing else"""
    from xgcm import Grid
    from xgcm.grid_ufunc import apply_as_grid_ufunc

    m = 3
    ds = xr.Dataset(coords={
        "xc": ("xc", np.arange(m) + 0.5, {"axis": "X", "units": "m"}), "xg": ("xg", np.arange(m) * 1.0, {"axis": "X", "c_grid_axis_shift": "-0.5", "note": "text"}),
        "xo": ("xo", np.arange(m + 1) * 1.0, {"axis": "X", "c_grid_axis_shift": -0.5}), "t": ("t", [10.0, 20.0], {"axis": "T"}),
        "aux_g": (("t", "xg"), np.arange(2 * m).reshape(2, m) * 1.0, {"nm": "aux_g"}), "aux_c": (("t", "xc"), np.arange(2 * m).reshape(2, m) * 2.0, {"nm": "aux_c"}),
        "lab_t": ("t", [1.0, 2.0]),
    })
    vals = ((np.arange(2 * m) * 5 + seed) % 11).astype(float).reshape(2, m)
    da = xr.DataArray(vals, dims=["t", "xc"], name="foo")

    def judge(sub, case, r, kc):
        exp = {c: v for c, v in ds.coords.items() if set(v.dims) <= set(r.dims) and (c in r.dims or kc)}
        if set(r.coords) != set(exp):
            rec.violation(sub, "coordinate-set", case, sorted(map(str, exp)), sorted(map(str, r.coords)))
            return
        for c in exp:
            if not np.array_equal(r.coords[c].values, exp[c].values) or dict(r.coords[c].attrs) != dict(exp[c].attrs):
                rec.violation(sub, "coordinate-values-or-attrs", dict(case, coord=str(c)), [exp[c].values.tolist(), dict(exp[c].attrs)], [r.coords[c].values.tolist(), dict(r.coords[c].attrs)])
                return

    with warnings.catch_warnings():
        warnings.simplefilter("ignore")
        g = Grid(ds, periodic=False, boundary="extend")
        for op in ("diff", "interp", "min", "max", "cumsum"):
            for to in ("left", "outer"):
                for kc in (True, False):
                    case = dict(extra="comodo-text-attrs", op=op, to=to, kc=kc)
                    rec.case(("extra-comodo", op, to, kc), True, sample=case)
                    try:
                        r = getattr(g, op)(da, "X", to=to, keep_coords=kc)
                    except Exception as e:
                        rec.violation("labels-parsed-grid", "raise:" + exc_sig(e), case, "array", f"{type(e).__name__}: {e}"[:200])
                        continue
                    judge("labels-parsed-grid", case, r, kc)
        for kc in (False, True):
            for route in ("function", "method"):
                case = dict(extra="two-outputs", kc=kc, route=route)
                rec.case(("extra-two-outputs", kc, route), True, sample=case)
                f = lambda a: (a[..., 1:] - a[..., :-1], a[..., 1:] * 2.0)
                kw = dict(axis=[("X",)], signature="(X:center)->(X:left),(X:center)", boundary_width={"X": (1, 0)}, keep_coords=kc)
                try:
                    rs = apply_as_grid_ufunc(f, da, grid=g, **kw) if route == "function" else g.apply_as_grid_ufunc(f, da, **kw)
                except Exception as e:
                    rec.violation("labels-two-outputs", "raise:" + exc_sig(e), case, "two arrays", f"{type(e).__name__}: {e}"[:200])
                    continue
                for oi, r in enumerate(rs):
                    judge("labels-two-outputs", dict(case, output=oi), r, kc)
    # (c) a custom grid ufunc without any halo whose signature keeps one core axis on its position: the inputs' own labels on
    # that dimension (mutually different, and a dimension the grid dataset has no coordinate for) neither stop the call nor
    # reach the result
    try:
        with warnings.catch_warnings():
            warnings.simplefilter("ignore")
            ds2 = xr.Dataset({"dummy": (("yc",), [0.0, 0.0])}, coords={"xc": ("xc", np.arange(m) + 0.5), "xg": ("xg", np.arange(m) * 1.0), "yl": ("yl", [0.0, 1.0])})  # (the dimension yc exists but carries no coordinate)
            g2 = Grid(ds2, coords={"X": {"center": "xc", "left": "xg"}, "Y": {"center": "yc", "left": "yl"}}, periodic=True, autoparse_metadata=False)
    except Exception:
        g2 = None
    if g2 is not None:
        va = ((np.arange(2 * m) * 3 + seed) % 7).astype(float).reshape(2, m)
        vb = ((np.arange(2 * m) * 5 + 1) % 11).astype(float).reshape(2, m)
        sig2 = "(X:center,Y:center),(X:center,Y:center)->(X:left,Y:center)"
        for la, lb in ((None, None), ([0.0, 1.0], [0.0, 1.0]), ([0.0, 1.0], [5.0, 6.0]), ([3.0, 4.0], None)):
            for kc in (False, True):
                case = dict(extra="kept-core-dim", labels=[la, lb], kc=kc)
                rec.case(("extra-kept-core-dim", str(la), str(lb), kc), True, sample=case)
                a_ = xr.DataArray(va, dims=["yc", "xc"], coords=None if la is None else {"yc": ("yc", la)})
                b_ = xr.DataArray(vb, dims=["yc", "xc"], coords=None if lb is None else {"yc": ("yc", lb)})
                try:
                    with warnings.catch_warnings():
                        warnings.simplefilter("ignore")
                        r = apply_as_grid_ufunc(lambda p, q: p + q, a_, b_, axis=[("X", "Y"), ("X", "Y")], grid=g2, signature=sig2, keep_coords=kc)
                        r = r[0] if isinstance(r, (tuple, list)) else r
                except Exception as e:
                    rec.violation("labels-kept-core-dim", "raise:" + exc_sig(e), case, "array", f"{type(e).__name__}: {e}"[:200])
                    continue
                want = (va + vb)
                got = r.transpose("yc", "xg").values if set(r.dims) == {"yc", "xg"} else None
                if got is None or not np.array_equal(got, want):
                    rec.violation("labels-kept-core-dim", "values-depend-on-input-labels", case, want, list(r.dims) if got is None else got)
                    continue
                if "yc" in r.coords or "xc" in r.coords:
                    rec.violation("labels-kept-core-dim", "input-labels-reach-the-result", case, sorted(c for c in ds2.coords if c in ("xg",)), sorted(map(str, r.coords)))


def pools(tier):
    out = []
    for k in range(0, BOUNDS[tier]["k"] + 1):
        out += list(itertools.combinations(POOL, k))
    return out


def shards(tier, seed):
    ps = pools(tier)
    return [(lo, min(lo + 6, len(ps))) for lo in range(0, len(ps), 6)] + [("faces",), ("extra",)]


def run_shard(shard, tier, seed, rec):
    from xgcm import Grid

    if shard[0] == "faces":
        run_faces(rec, seed)
        return
    if shard[0] == "extra":
        run_extra(rec, seed)
        return
    ps = pools(tier)
    for pool in ps[shard[0]: shard[1]]:
        for dimcoords in (True, False, "center", "faces"):
            ds = build(pool, dimcoords)
            g = make_grid(ds, dimcoords)
            for ci in range(len(CASES)):
                for carry in ("own", "none", "other", "dims-only"):
                    if carry == "other" and dimcoords is not True:
                        continue
                    if carry == "dims-only" and dimcoords is False:
                        continue
                    for kc in (True, False):
                        run_case(rec, pool, dimcoords, ci, carry, kc, seed, g, ds)
                # the same call as the first valid one a Grid sees, right after calls it had to refuse
                run_case(rec, pool, dimcoords, ci, "none", True, seed, after_refused=True)
                if len(pool) <= 1:
                    run_case(rec, pool, dimcoords, ci, "own", False, seed, after_refused=True)
        if len(pool) <= 2:
            for sizes in ("one-cell", "empty-t"):
                for dimcoords in (True, False):
                    ds = build(pool, dimcoords, sizes)
                    g = make_grid(ds, dimcoords)
                    for ci in range(len(CASES)):
                        for carry in ("own", "none"):
                            for kc in (True, False):
                                run_case(rec, pool, dimcoords, ci, carry, kc, seed, g, ds, sizes=sizes)


def replay_case(case, seed, rec):
    if case.get("extra"):
        rec.MAXVIOL = 10 ** 6
        run_extra(rec, seed)
        rec.viol = [v for v in rec.viol if v["case"] == case]
        return
    if case.get("faces"):
        rec.MAXVIOL = 10 ** 6
        run_faces(rec, seed)
        rec.viol = [v for v in rec.viol if {k: v["case"].get(k) for k in ("op", "ax", "carry", "kc")} == {k: case.get(k) for k in ("op", "ax", "carry", "kc")}]
        return
    run_case(rec, tuple(case["pool"]), case["dimcoords"], case["ci"], case["carry"], case["kc"], seed, sizes=case.get("sizes", "std"),
             after_refused=case.get("after_refused", False))
