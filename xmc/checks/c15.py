"""C15  Grid-ufunc signatures: parse/print are inverse; equivalence is renaming.

Every well-formed signature within bounds (exhaustively), printed with and without spaces, must be
accepted, print back to the same text and re-parse to itself, and equal its Annotated spelling;
every single-character corruption (deletion, substitution, insertion at every index) is classified
by an independent recursive-descent recogniser: still in the language -> must be accepted and
round-trip; malformed in a listed way -> must raise.  Equivalence = equality of first-appearance
canonical forms, checked on renamings and on non-renamings.
"""
import itertools
from typing import Annotated, Tuple

import numpy as np

from ..core import exc_sig
from ..ref import signature as G

PID = "C15"
LEVEL = "exploration"
TECHNIQUE = "bounded exhaustive enumeration of the signature language and of all single-character corruptions, real parser/printer/equivalent() against an independent recursive-descent recogniser and canonical forms"
RULE = (
    "case = signature text (well-formed or corrupted) or a pair of signatures; non-trivial = >= 2 pairs or a corrupted string"
)
SPACE = {
    "quick": "all 543836 signatures with <= 3 inputs, <= 2 outputs, <= 2 pairs per argument, <= 3 names, total pairs <= 4 (round trip, spaces, equivalence with 3 renamings, 2-3 non-renamings and every other placement of '->' among the same arguments, each 7th); every single-character deletion/substitution/insertion of the 2086 signatures with total pairs <= 2; Annotated spelling for total pairs <= 3 over 3 positions (each 3rd also with blanks after commas / around colons); name pool through the predefined-ufunc selection",
    "thorough": "corruptions for total pairs <= 3 (over 3 positions); equivalence on every signature",
}
BOUNDS = {"quick": {"max_total": 4, "corrupt_total": 2}, "thorough": {"max_total": 4, "corrupt_total": 3}}
ASSUMPTIONS = [
    "strings that are malformed only by a single comma in front of a closing parenthesis ('(X:center,)') are not classified by the statement: counted and skipped; a comma outside the parentheses that separates nothing ('(X:center),->()') is a stray character and must be refused",
    "spaces are insignificant everywhere (as the implementation's own round-trip tests establish)",
    "names equal to one of the five position words are outside the property",
]
ALPHABET = "(),:->a "
POOL = ["x", "t", "e", "c", "n", "r", "l", "f", "i", "o", "u", "g", "T", "xleft", "center1", "inner_x", "outerspace", "cent", "xx", "xc", "xc2",
        "XC", "Xc", "abcdefghijkl", "temp_unique", "ydummy", "lon", "__a", "_", "X1",
        # letters outside ASCII are word characters too
        "\u03bb", "\u03c3", "L\u00e4nge", "\u6df1\u5ea6"]


def sig_of(text):
    from xgcm.grid_ufunc import _GridUFuncSignature as S

    return S.from_string(text)


def attrs(s):
    return ([tuple(a) for a in s.in_ax_names], [tuple(a) for a in s.in_ax_positions],
            [tuple(a) for a in s.out_ax_names], [tuple(a) for a in s.out_ax_positions])


def expected_attrs(sig):
    ins, outs = sig
    return ([tuple(n for n, p in a) for a in ins], [tuple(p for n, p in a) for a in ins],
            [tuple(n for n, p in a) for a in outs], [tuple(p for n, p in a) for a in outs])


def check_wellformed(rec, sig, spaces, sub="roundtrip", text=None):
    text = G.unparse(sig, spaces) if text is None else text
    case = dict(kind="wellformed", text=text)
    npairs = sum(len(a) for part in sig for a in part)
    rec.case(("wf", text), npairs >= 2, sample=case if npairs >= 3 else None)
    try:
        s = sig_of(text)
    except Exception as e:
        rec.violation(sub, "well-formed-rejected", case, "accepted", f"{type(e).__name__}: {e}"[:160])
        return None
    if attrs(s) != expected_attrs(sig):
        rec.violation(sub, "parsed-wrong", case, expected_attrs(sig), attrs(s))
        return None
    printed = str(s)
    if printed.replace(" ", "") != text.replace(" ", ""):
        rec.violation(sub, "prints-differently", case, text.replace(" ", ""), printed)
        return None
    try:
        s2 = sig_of(printed)
    except Exception as e:
        rec.violation(sub, "printed-form-rejected", case, "accepted", printed)
        return None
    if attrs(s2) != attrs(s):
        rec.violation(sub, "reparse-differs", case, attrs(s), attrs(s2))
        return None
    return s


def rename(sig, mapping):
    return tuple([tuple((mapping[n], p) for n, p in a) for a in part] for part in sig)


def check_equivalence(rec, sig, idx):
    s = sig_of(G.unparse(sig))
    names = sorted({n for part in sig for a in part for n, p in a})
    if not names:
        return
    targets = [("lon", "lat", "lev"), ("t", "e", "r"), ("xc", "x", "xc2"), ("Y", "X", "Z"), ("center1", "xleft", "c")]
    for ti in ((idx % 5), ((idx + 2) % 5), ((idx + 3) % 5)):
        mp = dict(zip(("X", "Y", "Z"), targets[ti]))
        other = rename(sig, mp)
        text2 = G.unparse(other)
        case = dict(kind="equiv", a=G.unparse(sig), b=text2, expect=True)
        rec.case(("eq", case["a"], text2), len(names) >= 2)
        try:
            o = sig_of(text2)
            r1, r2 = s.equivalent(o), o.equivalent(s)
        except Exception as e:
            rec.violation("equivalence", "raise:" + exc_sig(e), case, True, f"{type(e).__name__}: {e}"[:160])
            return
        if not (r1 and r2):
            rec.violation("equivalence", "renaming-not-equivalent", case, True, [bool(r1), bool(r2)])
            return
    # non-renamings: (a) merge two names, (b) swap two names in one place only, (c) change a position
    variants = []
    if len(names) >= 2:
        variants.append(rename(sig, {**{n: n for n in names}, names[1]: names[0]}))
        flat = [(pi, ai, qi) for pi, part in enumerate(sig) for ai, a in enumerate(part) for qi, _ in enumerate(a)]
        pi, ai, qi = flat[-1]
        lst = [[list(a) for a in part] for part in sig]
        n0, p0 = lst[pi][ai][qi]
        alt = [n for n in names if n != n0 and n not in [x[0] for x in lst[pi][ai]]]
        if alt:
            lst[pi][ai][qi] = (alt[0], p0)
            variants.append(tuple([tuple(a) for a in part] for part in lst))
    flat = [(pi, ai, qi) for pi, part in enumerate(sig) for ai, a in enumerate(part) for qi, _ in enumerate(a)]
    if flat:
        pi, ai, qi = flat[idx % len(flat)]
        lst = [[list(a) for a in part] for part in sig]
        n0, p0 = lst[pi][ai][qi]
        lst[pi][ai][qi] = (n0, G.POSITIONS[(G.POSITIONS.index(p0) + 1) % 5])
        variants.append(tuple([tuple(a) for a in part] for part in lst))
    # (e) the two pairs of one argument in the other order
    for pi, part in enumerate(sig):
        for ai, a in enumerate(part):
            if len(a) == 2:
                lst = [[list(x) for x in prt] for prt in sig]
                lst[pi][ai] = [lst[pi][ai][1], lst[pi][ai][0]]
                variants.append(tuple([tuple(map(tuple, x)) for x in prt] for prt in lst))
    # (d) the same arguments in the same order with '->' at another place
    allargs = list(sig[0]) + list(sig[1])
    for k in range(1, len(allargs)):
        if k != len(sig[0]):
            variants.append((allargs[:k], allargs[k:]))
    for other in variants:
        if not all(len({n for n, p in a}) == len(a) for part in other for a in part):
            continue
        expect = G.canonical(other) == G.canonical(sig)
        text2 = G.unparse(other)
        case = dict(kind="equiv", a=G.unparse(sig), b=text2, expect=expect)
        rec.case(("eq", case["a"], text2), True)
        try:
            o = sig_of(text2)
            r1, r2 = bool(s.equivalent(o)), bool(o.equivalent(s))
        except Exception as e:
            rec.violation("equivalence", "raise:" + exc_sig(e), case, expect, f"{type(e).__name__}: {e}"[:160])
            return
        if r1 != expect or r2 != expect:
            rec.violation("equivalence", "non-renaming-judged-equivalent" if not expect else "renaming-not-equivalent", case, expect, [r1, r2])
            return


def corruptions(text):
    seen = set()
    for i in range(len(text)):
        c = text[:i] + text[i + 1:]
        if c not in seen:
            seen.add(c)
            yield "del", i, c
    for i in range(len(text)):
        for ch in ALPHABET:
            if ch != text[i]:
                c = text[:i] + ch + text[i + 1:]
                if c not in seen:
                    seen.add(c)
                    yield "sub", i, c
    for i in range(len(text) + 1):
        for ch in ALPHABET:
            c = text[:i] + ch + text[i:]
            if c not in seen:
                seen.add(c)
                yield "ins", i, c


def check_corrupted(rec, text, c):
    case = dict(kind="corrupt", text=c, origin=text)
    if G.in_language(c):
        try:
            sig = G.parse(c)
        except G.Reject:
            return
        if any(n in G.POSITIONS for part in sig for a in part for n, p in a):
            rec.counters["skipped:name-is-position-word"] += 1
            return
        rec.counters["corrupted-still-wellformed"] += 1
        check_wellformed(rec, sig, False, sub="corruption", text=c)
        return
    if G.unspecified(c):
        rec.counters["skipped:unspecified-single-comma"] += 1
        return
    rec.case(("bad", c), True, sample=case)
    rec.counters["corrupted-must-reject"] += 1
    try:
        s = sig_of(c)
    except Exception:
        return
    cls = "malformed-accepted"
    stripped = c.replace(" ", "")
    import re as _re

    if _re.search(r":(center|left|right|inner|outer)\w", stripped):
        cls = "malformed-accepted:juxtaposed-pairs-or-unknown-position"
    rec.violation("corruption", cls, case, "ValueError", str(s))


# parameter names of the annotated functions: deliberately not in alphabetical order (the signature follows the order of
# the parameters, not of their names)
PARAMS = ("q", "b", "a10", "a2")


def annotated_hints(sig, spaces=0):
    """spaces: 0 none; 1 a blank after each comma; 2 blanks around the colon and around the whole text"""
    ins, outs = sig
    ann = {}
    sep = (",", ", ", " , ")[spaces]
    col = (":", ":", " : ")[spaces]
    wrap = (lambda t: t) if spaces < 2 else (lambda t: " " + t + " ")
    for i, a in enumerate(ins):
        ann[PARAMS[i]] = Annotated[np.ndarray, wrap(sep.join(f"{n}{col}{p}" for n, p in a))]
    rets = [Annotated[np.ndarray, wrap(sep.join(f"{n}{col}{p}" for n, p in a))] for a in outs]
    ann["return"] = rets[0] if len(rets) == 1 else Tuple[tuple(rets)]
    return ann


def annotated_text(sig):
    """the same hints written as text (quoted annotations, or a module under `from __future__ import annotations`)"""
    ins, outs = sig
    txt = lambda a: 'Annotated[np.ndarray, "%s"]' % ",".join(f"{n}:{p}" for n, p in a)
    ann = {PARAMS[i]: txt(a) for i, a in enumerate(ins)}
    rets = [txt(a) for a in outs]
    ann["return"] = rets[0] if len(rets) == 1 else "Tuple[%s]" % ", ".join(rets)
    return ann


def check_decorated(rec, sig, as_text):
    """the public route: as_grid_ufunc() without a signature reads the function's type hints"""
    from xgcm.grid_ufunc import as_grid_ufunc

    if any(len(a) == 0 for part in sig for a in part):
        return
    text = G.unparse(sig)
    case = dict(kind="decorated", text=text, as_text=as_text)
    ins, _ = sig
    ns = {"np": np, "Annotated": Annotated, "Tuple": Tuple}
    exec("def f(%s):\n    return None" % ", ".join(PARAMS[i] for i in range(len(ins))), ns)
    f = ns["f"]
    f.__annotations__ = annotated_text(sig) if as_text else annotated_hints(sig)
    rec.case(("dec", text, as_text), True)
    try:
        s = as_grid_ufunc()(f).signature
    except Exception as e:
        rec.violation("annotated", ("text-hints:" if as_text else "hints:") + "raise:" + exc_sig(e), case, text, f"{type(e).__name__}: {e}"[:160])
        return
    if attrs(s) != expected_attrs(sig):
        rec.violation("annotated", ("text-hints:" if as_text else "hints:") + "differs-from-string-form", case, expected_attrs(sig), attrs(s))
        return
    # the same function wrapped a second time (other options): its hints still denote the same signature, and the function's
    # own annotations are what they were
    ann_before = dict(f.__annotations__)
    try:
        s2 = as_grid_ufunc(boundary="fill", fill_value=1.0)(f).signature
        rec.calls += 1
    except Exception as e:
        rec.violation("annotated", ("text-hints:" if as_text else "hints:") + "second-wrap-raise:" + exc_sig(e), case, text, f"{type(e).__name__}: {e}"[:160])
        return
    if attrs(s2) != expected_attrs(sig):
        rec.violation("annotated", ("text-hints:" if as_text else "hints:") + "second-wrap-differs-from-string-form", case, expected_attrs(sig), attrs(s2))
    elif f.__annotations__ != ann_before:
        rec.violation("annotated", "annotations-of-the-function-changed", case, sorted(ann_before), sorted(f.__annotations__))


def check_annotated(rec, sig, spaces=0):
    from typing import get_type_hints

    from xgcm.grid_ufunc import _GridUFuncSignature as S

    if any(len(a) == 0 for part in sig for a in part):
        return
    text = G.unparse(sig)
    case = dict(kind="annotated", text=text, spaces=spaces)

    def f(*a):
        return a

    f.__annotations__ = annotated_hints(sig, spaces)
    rec.case(("ann", text, spaces), True)
    try:
        s = S.from_type_hints(get_type_hints(f, include_extras=True))
    except Exception as e:
        rec.violation("annotated", "raise:" + exc_sig(e), case, text, f"{type(e).__name__}: {e}"[:160])
        return
    if attrs(s) != expected_attrs(sig):
        rec.violation("annotated", "differs-from-string-form", case, expected_attrs(sig), attrs(s))


def check_pool(rec):
    """the predefined operations are found for an axis of any name"""
    import xgcm.gridops as gridops
    from xgcm.grid import _select_grid_ufunc

    for name in POOL:
        for fn, fr, to in (("diff", "center", "left"), ("interp", "outer", "center"), ("cumsum", "center", "right"), ("min", "inner", "center")):
            text = f"({name}:{fr})->({name}:{to})"
            case = dict(kind="pool", name=name, fn=fn, fr=fr, to=to)
            rec.case(("pool", name, fn), True)
            try:
                s = sig_of(text)
                uf, _ = _select_grid_ufunc(fn, s, module=gridops)
                want = f"{fn}_{fr}_to_{to}"
                got = uf.ufunc.__name__
                if got != want:
                    rec.violation("selection", "wrong-ufunc", case, want, got)
            except Exception as e:
                rec.violation("selection", "axis-name-breaks-selection", case, "ufunc found", f"{type(e).__name__}: {e}"[:160])
        # round trip of a two-name signature using pool names
        other = POOL[(POOL.index(name) + 7) % len(POOL)]
        if other != name:
            check_annotated(rec, ([((name, "center"), (other, "left"))], [((other, "outer"),), ((name, "inner"),)]))
            check_annotated(rec, ([((name, "center"),)], [((name, "left"),)]))
            sig = ([((name, "center"), (other, "left"))], [((other, "outer"),), ((name, "inner"),)])
            check_wellformed(rec, sig, False, sub="pool-roundtrip")
            check_wellformed(rec, sig, True, sub="pool-roundtrip")


NSH = 64


def shards(tier, seed):
    return [("enum", k) for k in range(NSH)] + [("corrupt", k) for k in range(32)] + [("pool",), ("ann", 0), ("ann", 1), ("ann", 2), ("ann", 3)]


def run_shard(shard, tier, seed, rec):
    if shard[0] == "enum":
        k = shard[1]
        for idx, sig in enumerate(G.enumerate_signatures(max_total=BOUNDS[tier]["max_total"])):
            if idx % NSH != k:
                continue
            s = check_wellformed(rec, sig, False)
            if idx % 5 == 0:
                check_wellformed(rec, sig, True)
            if s is not None and (tier == "thorough" or (idx // NSH) % 7 == 0):
                check_equivalence(rec, sig, idx)
    elif shard[0] == "corrupt":
        k = shard[1]
        ct = BOUNDS[tier]["corrupt_total"]
        pos = G.POSITIONS if ct <= 2 else ("center", "left", "outer")
        for idx, sig in enumerate(G.enumerate_signatures(max_total=ct, positions=pos)):
            if idx % 32 != k:
                continue
            text = G.unparse(sig)
            for kind, i, c in corruptions(text):
                check_corrupted(rec, text, c)
    elif shard[0] == "pool":
        check_pool(rec)
    else:
        for idx, sig in enumerate(G.enumerate_signatures(max_total=3, positions=("center", "left", "outer"))):
            if idx % 4 == shard[1]:
                check_annotated(rec, sig)
                if (idx // 4) % 3 == 0:
                    check_annotated(rec, sig, spaces=1 + (idx // 12) % 2)
                if (idx // 4) % 2 == 0:
                    check_decorated(rec, sig, as_text=(idx // 8) % 2 == 0)


def replay_case(case, seed, rec):
    k = case["kind"]
    if k == "wellformed":
        check_wellformed(rec, G.parse(case["text"]), False, text=case["text"])
    elif k == "corrupt":
        check_corrupted(rec, case["origin"], case["text"])
    elif k == "decorated":
        check_decorated(rec, G.parse(case["text"]), case["as_text"])
    elif k == "annotated":
        check_annotated(rec, G.parse(case["text"]), case.get("spaces", 0))
    elif k == "pool":
        check_pool(rec)
        rec.viol = [v for v in rec.viol if v["case"] == case]
    else:
        sig = G.parse(case["a"])
        rec.MAXVIOL = 10 ** 6
        for idx in range(35):
            check_equivalence(rec, sig, idx)
        rec.viol = [v for v in rec.viol if v["case"]["b"] == case["b"]][:1]
