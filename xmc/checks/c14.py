"""C14  Metadata autoparsing recovers exactly the topology the conventions prescribe.

The COMODO and the SGRID decision tables are enumerated in full (positions x cell counts x shift
signs x spellings; 1-D/2-D/2-D+vertical/3-D x every padding word x spellings x dimension names
and orders).  Oracle: the two tables written out from the statement; Grid(ds).axes[*].coords must
equal the table's answer and a battery of operations must equal the same battery on the Grid
built from the explicit mapping.
"""
import itertools
import warnings

import numpy as np
import xarray as xr

from ..core import exc_sig
from ..ref import simple as S

PID = "C14"
LEVEL = "exploration"
TECHNIQUE = "bounded exhaustive enumeration of COMODO / SGRID annotated datasets, real Grid autoparsing against decision tables transcribed from the statement + differential against the explicit-mapping Grid"
RULE = "case = annotated dataset description; non-trivial = at least one axis has >= 2 positions"
SPACE = {
    "quick": "COMODO single axis: 16 position sets x n in {1,2,3} x shift signs on inner/outer x float/str shift x 3 name styles; 2 and 3 axes: reduced per-axis sets x dim orders; SGRID: 1-D/2-D/2-D+vertical/3-D x 4^k padding words x space/no space x Conventions/conventions x SGRID/sgrid/Sgrid (rotating) x 4 name styles; SGRID+COMODO attributes; user coords together with parsed ones",
    "thorough": "all spelling combinations for every SGRID topology",
}
BOUNDS = {"quick": {}, "thorough": {}}
ASSUMPTIONS = [
    "a coordinate's position is decided by the table of the statement: no shift -> center; length n+1 -> outer; n-1 -> inner; same length and shift -1/2 -> left, +1/2 -> right",
    "SGRID: padding low -> right, high -> left, both -> inner, none -> outer; axes are named X, Y, Z in the order of node_dimensions",
]
POSN = ("left", "right", "inner", "outer")
NAME_STYLES = (
    lambda ax, p: f"{ax}_{p}",
    lambda ax, p: {"center": f"{ax.lower()}c", "left": f"{ax.lower()}g", "right": f"{ax.lower()}r", "inner": f"{ax.lower()}i", "outer": f"{ax.lower()}o"}[p],
    lambda ax, p: {"center": f"{ax.lower()}", "left": f"{ax.lower()}{ax.lower()}", "right": f"{ax.lower()}_1", "inner": f"in{ax.lower()}", "outer": f"{ax.lower()}out"}[p],
)


def comodo_ds(spec, style, as_str, order=0, with_vars=False):
    """spec: {axis: (n, {pos: shift_sign_for_inner_outer or None})}"""
    coords = {}
    expect = {}
    items = list(spec.items())
    for ax, (n, layout) in items:
        nm = NAME_STYLES[style]
        d = nm(ax, "center")
        entries = [(d, "center", None)]
        expect[ax] = {"center": d}
        for p, sign in layout.items():
            if p == "center":
                continue
            sh = {"left": -0.5, "right": 0.5}.get(p, sign)
            entries.append((nm(ax, p), p, sh))
            expect[ax][p] = nm(ax, p)
        if order:
            entries = entries[::-1]
        for name, p, sh in entries:
            attrs = {"axis": ax}
            if sh is not None:
                attrs["c_grid_axis_shift"] = str(sh) if as_str else sh
            coords[name] = (name, np.array(S.pos_points(p, n)) if S.pos_len(p, n) > 0 else np.zeros(0), attrs)
    if order == 2:
        coords = dict(reversed(list(coords.items())))
    ds = xr.Dataset(coords=coords)
    if order != 1:
        # coordinates that are not dimensions may carry an `axis` attribute too (the scalar level left by isel(), a 2-D
        # longitude): only dimensions define axes
        first = next(iter(coords))
        ds = ds.assign_coords(level_left_by_isel=((), 5.0, {"axis": "Q"}), aux2d=((first, "aux"), np.zeros((ds.sizes[first], 2)), {"axis": "W"}))
    return ds, expect


def battery(g, layout_by_axis, ns, dimof):
    """a few operations whose results depend on the parsed position->dimension assignment"""
    out = []
    for ax, layout in layout_by_axis.items():
        n = ns[ax]
        if n < 2:
            continue
        c = xr.DataArray(np.arange(n, dtype=float) ** 2 + 1, dims=[dimof[ax]["center"]])
        # shifts without `to`: the documented default (left, else right, else outer, else inner), whatever the order in
        # which the dataset or the mapping lists the positions
        dflt = next((p for p in ("left", "right", "outer", "inner") if p in layout), None)
        if dflt is not None:
            for op in ("interp", "diff", "cumsum"):
                r0 = getattr(g, op)(c, ax, boundary="extend")
                out.append((ax, "default", op, tuple(r0.dims), r0.values.tobytes()))
                if tuple(r0.dims) != (dimof[ax][dflt],):
                    out.append((ax, "default-shift-not-the-documented-one", op, id(g)))  # differs between the two grids
        for p in layout:
            if p == "center":
                continue
            r = g.interp(c, ax, to=p, boundary="extend")
            out.append((ax, p, tuple(r.dims), r.values.tobytes()))
            m = S.pos_len(p, n)
            if m > 0:
                b = xr.DataArray(np.arange(m, dtype=float) * 3 - 1, dims=[dimof[ax][p]])
                r2 = g.diff(b, ax, to="center", boundary="fill", fill_value=2.0)
                out.append((ax, p, "back", tuple(r2.dims), r2.values.tobytes()))
    return out


def check_parsed(rec, sub, case, ds, expect, ns, extra_grid_kw=None):
    from xgcm import Grid

    npos = max(len(v) for v in expect.values())
    rec.case(tuple(sorted((str(k), str(v)) for k, v in case.items())), npos >= 2, sample=case, calls=2)
    if len(repr(sorted(case.items(), key=str))) % 2 == 0:
        # history on one Dataset object: it is first seen with another annotation (shifts negated, low <-> high), which is
        # then corrected in place (no dimension changes its length); what is parsed afterwards is the annotation it has now
        saved = []
        for name in list(ds.variables):
            at = ds[name].attrs
            for k in ("c_grid_axis_shift", "face_dimensions", "volume_dimensions", "vertical_dimensions"):
                if k in at:
                    saved.append((at, k, at[k]))
                    v = at[k]
                    if k == "c_grid_axis_shift":
                        at[k] = (str(-float(v)) if isinstance(v, str) else type(v)(-v))
                    else:
                        at[k] = v.replace("low", "\0").replace("high", "low").replace("\0", "high")
        if saved:
            try:
                with warnings.catch_warnings():
                    warnings.simplefilter("ignore")
                    Grid(ds, periodic=False, **(extra_grid_kw or {}))
                rec.calls += 1
            except Exception:
                pass
            for at, k, v in saved:
                at[k] = v
    try:
        with warnings.catch_warnings():
            warnings.simplefilter("ignore")
            g = Grid(ds, periodic=False, **(extra_grid_kw or {}))
    except Exception as e:
        rec.violation(sub, "parse-raise:" + exc_sig(e), case, expect, f"{type(e).__name__}: {e}"[:200])
        return
    got = {ax: dict(a.coords) for ax, a in g.axes.items()}
    if got != expect:
        wrong = sorted(set(got) ^ set(expect)) or sorted(ax for ax in expect if got[ax] != expect[ax])
        cls = "axes" if set(got) != set(expect) else "positions"
        rec.violation(sub, cls, case, expect, got)
        return
    try:
        with warnings.catch_warnings():
            warnings.simplefilter("ignore")
            ge = Grid(ds, coords=expect, periodic=False, autoparse_metadata=False)
            lay = {ax: tuple(expect[ax]) for ax in expect}
            b1 = battery(g, lay, ns, expect)
            b2 = battery(ge, lay, ns, expect)
    except Exception as e:
        rec.violation(sub, "battery-raise:" + exc_sig(e), case, "results", f"{type(e).__name__}: {e}"[:200])
        return
    if b1 != b2:
        rec.violation(sub, "differs-from-explicit-grid", case, len(b2), len(b1))


# ------------------------------------------------------------------ COMODO
def comodo_single_cases():
    for n in (1, 2, 3):
        for k in range(0, 5):
            for sub in itertools.combinations(POSN, k):
                io = [p for p in sub if p in ("inner", "outer")]
                for signs in itertools.product((-0.5, 0.5), repeat=len(io)):
                    sg = dict(zip(io, signs))
                    layout = {"center": None}
                    for p in sub:
                        layout[p] = sg.get(p)
                    for as_str in (False, True):
                        for style in range(len(NAME_STYLES)):
                            yield dict(conv="comodo", axes=1, n=n, layout=layout, as_str=as_str, style=style, order=(n + k + style) % 3)


def comodo_multi_cases():
    sets = [("center", "left"), ("center", "outer"), ("center", "right", "inner"), ("center",), ("center", "left", "right", "outer")]
    for naxes in (2, 3):
        names_opts = [("X", "Y", "Z")[:naxes], ("lon", "lat", "depth")[:naxes], ("b", "a", "T")[:naxes]]
        for combo in itertools.product(range(len(sets)), repeat=naxes):
            for ni, names in enumerate(names_opts):
                if (sum(combo) + ni) % 3:
                    continue
                yield dict(conv="comodo", axes=naxes, names=list(names), sets=[list(sets[i]) for i in combo],
                           ns=[2 + (i % 2) for i in range(naxes)], style=(sum(combo)) % 3, order=sum(combo) % 3, as_str=bool(ni % 2))


def run_comodo(rec, case):
    if case["axes"] == 1:
        spec = {"X": (case["n"], case["layout"])}
        ns = {"X": case["n"]}
    else:
        spec, ns = {}, {}
        for ax, st, n in zip(case["names"], case["sets"], case["ns"]):
            spec[ax] = (n, {p: (0.5 if p == "outer" else -0.5) if p in ("inner", "outer") else None for p in st})
            ns[ax] = n
    ds, expect = comodo_ds(spec, case["style"], case["as_str"], case["order"])
    check_parsed(rec, "comodo", case, ds, expect, ns)


# ------------------------------------------------------------------ SGRID
PADS = ("low", "high", "both", "none")
PAD2POS = {"low": "right", "high": "left", "both": "inner", "none": "outer"}
SG_NAMES = (
    dict(X=("xi_rho", "xi_psi"), Y=("eta_rho", "eta_psi"), Z=("s_rho", "s_w")),
    dict(X=("xc", "x"), Y=("yc", "y"), Z=("zc", "z")),  # node names are substrings of the cell names
    dict(X=("i", "in"), Y=("j", "jn"), Z=("k", "kn")),  # cell names are substrings of the node names
    dict(X=("p", "q"), Y=("a", "d"), Z=("g", "n")),  # single letters occurring in '(padding'
)


def sgrid_ds(kind, pads, sp, conv_key, conv_val, ni, n=3, comodo_noise=False, fd_reversed=False):
    names = SG_NAMES[ni]
    axes = {"1d": ("X",), "2d": ("X", "Y"), "2dv": ("X", "Y", "Z"), "3d": ("X", "Y", "Z")}[kind]
    s = " " if sp else ""
    attrs = {"cf_role": "grid_topology", "topology_dimension": {"1d": 1, "2d": 2, "2dv": 2, "3d": 3}[kind]}
    horiz = axes if kind == "3d" else axes[:2] if kind in ("2d", "2dv") else axes
    attrs["node_dimensions"] = " ".join(names[a][1] for a in horiz)
    items = [f"{names[a][0]}:{s}{names[a][1]} (padding:{s}{pads[i]})" for i, a in enumerate(horiz)]
    if fd_reversed:
        # the cell:node pairs listed in another order than node_dimensions (pairs are matched by node name)
        items.reverse()
    body = " ".join(items)
    if kind == "3d":
        attrs["volume_dimensions"] = body
    else:
        attrs["face_dimensions"] = body
    if kind == "2dv":
        attrs["vertical_dimensions"] = f"{names['Z'][0]}:{s}{names['Z'][1]} (padding:{s}{pads[2]})"
    dv = {"grid": ((), np.int32(0), attrs)}
    expect = {}
    for i, a in enumerate(axes):
        cell, node = names[a]
        pos = PAD2POS[pads[i]]
        ca = {"axis": "Q" + a} if comodo_noise else {}
        dv[cell] = ((cell,), np.arange(n) + 0.5, ca)
        dv[node] = ((node,), np.array(S.pos_points(pos, n)), dict(ca, c_grid_axis_shift=0.5) if comodo_noise else {})
        expect[a] = {"center": cell, pos: node}
    return xr.Dataset(dv, attrs={conv_key: conv_val}), expect


def sgrid_cases(tier):
    k = 0
    for kind, nax in (("1d", 1), ("2d", 2), ("2dv", 3), ("3d", 3)):
        for pads in itertools.product(PADS, repeat=nax):
            combos = list(itertools.product((True, False), ("Conventions", "conventions"), ("SGRID-0.3", "sgrid", "CF-1.6, Sgrid-0.3"), range(len(SG_NAMES))))
            if tier == "quick":
                k += 1
                combos = [combos[(k * 7 + j * 11) % len(combos)] for j in range(4)] + [c for c in combos if c[3] == 1][k % 12: k % 12 + 1]
            for j, (sp, ck, cv, ni) in enumerate(combos):
                yield dict(conv="sgrid", kind=kind, pads=list(pads), sp=sp, ck=ck, cv=cv, ni=ni)
                if nax >= 2 and j % 2 == 0:
                    yield dict(conv="sgrid", kind=kind, pads=list(pads), sp=sp, ck=ck, cv=cv, ni=ni, fdrev=True)


def run_sgrid(rec, case, noise=False):
    ds, expect = sgrid_ds(case["kind"], case["pads"], case["sp"], case["ck"], case["cv"], case["ni"], comodo_noise=noise, fd_reversed=case.get("fdrev", False))
    ns = {a: 3 for a in expect}
    check_parsed(rec, "sgrid" if not noise else "sgrid-wins-over-comodo", dict(case, noise=noise), ds, expect, ns)


def run_conflict(rec, case):
    """user-supplied coords together with parsed ones are rejected rather than merged"""
    from xgcm import Grid

    if case["conv"] == "sgrid":
        ds, expect = sgrid_ds(case["kind"], case["pads"], case["sp"], case["ck"], case["cv"], case["ni"])
    else:
        ds, expect = comodo_ds({"X": (3, {"center": None, "left": None})}, 0, False)
    first = sorted(expect)[0]
    for which, user in (("same-axis", {first: {"center": expect[first]["center"]}}),
                        ("other-axis", {"Q": {"center": expect[first]["center"]}}),
                        ("same-and-other", {first: dict(expect[first]), "Q": {"center": expect[first]["center"]}}),
                        # a mapping that is given but names nothing is still a user-supplied coords argument
                        ("empty-mapping", {}), ("empty-ordered-mapping", __import__("collections").OrderedDict())):
        c2 = dict(case, conflict=which)
        rec.case(tuple(sorted((str(k), str(v)) for k, v in c2.items())), True, sample=c2)
        try:
            with warnings.catch_warnings():
                warnings.simplefilter("ignore")
                g = Grid(ds, coords=user, periodic=False)
        except Exception:
            continue
        rec.violation("conflict", "user-coords-merged-with-parsed:" + which, c2, "raise", {ax: dict(a.coords) for ax, a in g.axes.items()})


def comodo_fallback(rec):
    """a dataset that carries a grid_topology variable but does not declare SGRID is parsed as COMODO"""
    ds, _ = sgrid_ds("2d", ["low", "high"], True, "Conventions", "CF-1.6", 0)
    ds2, expect = comodo_ds({"A": (3, {"center": None, "left": None})}, 0, False)
    ds = xr.merge([ds, ds2])
    ds.attrs = {"Conventions": "CF-1.6"}
    check_parsed(rec, "comodo-when-sgrid-not-declared", dict(conv="fallback"), ds, expect, {"A": 3})


def all_cases(tier):
    cs = list(comodo_single_cases()) + list(comodo_multi_cases()) + list(sgrid_cases(tier))
    return cs


def shards(tier, seed):
    n = len(all_cases(tier))
    return [("cases", lo, min(lo + 80, n)) for lo in range(0, n, 80)] + [("misc",)]


def run_case(rec, case, idx=0):
    if case["conv"] == "comodo":
        run_comodo(rec, case)
    elif case["conv"] == "sgrid":
        run_sgrid(rec, case, noise=case.get("noise", False))
    elif case["conv"] == "fallback":
        comodo_fallback(rec)


def run_shard(shard, tier, seed, rec):
    if shard[0] == "misc":
        comodo_fallback(rec)
        run_conflict(rec, dict(conv="comodo"))
        for i, c in enumerate(sgrid_cases(tier)):
            if i % 9 == 0:
                run_sgrid(rec, c, noise=True)
            if i % 17 == 0:
                run_conflict(rec, c)
        return
    cs = all_cases(tier)
    for i in range(shard[1], shard[2]):
        run_case(rec, cs[i], i)


def replay_case(case, seed, rec):
    case = dict(case)
    if case.pop("conflict", False):
        run_conflict(rec, case)
        rec.viol = rec.viol[:1]
    else:
        run_case(rec, case)
