"""C02  Boundary rule resolution and padding widths are exactly as specified.

Exhaustive product of constructor spellings x call spellings x width sets x array layouts on
a two-axis simple grid; oracle = the precedence sentence of the statement, transcribed, plus
index-arithmetic padding.
"""
import itertools
import warnings

import numpy as np
import xarray as xr

from ..core import exc_sig
from ..ref.simple import ref_pad, ref_stencil

PID = "C02"
LEVEL = "exploration"
TECHNIQUE = "bounded exhaustive enumeration of (constructor spelling x call spelling x widths x layout) against a precedence-table oracle"
RULE = (
    "case = (periodic, grid boundary, grid fill_value, call boundary, call fill_value, width set, layout, n); "
    "non-trivial = at least one non-zero width and the expected padded array differs from zero-padding of the same shape"
)
SPACE = {
    "quick": "8 periodic x 8 boundary x 6 fill_value constructor spellings x 10 x 8 call spellings (incl. mappings naming the same axes with other values, on the same Grid) x 8 width sets x 5 layouts incl. arrays on outer / right positions (n=2), + axis settings + Grid.diff with the same kwargs",
    "thorough": "same x 30 width sets x 9 layouts (all five positions), n in {2,3}",
}
BOUNDS = {"quick": {"n": [2], "width_sets": 8, "layouts": 5}, "thorough": {"n": [2, 3], "width_sets": 30, "layouts": 9}}
ASSUMPTIONS = [
    "injective integer labels stand for all data values (padding copies cells without reading them); checked with a second labelling",
    "cells that are new along two axes are accepted if they match either order of sequential padding (C12 owns them)",
    "partial `periodic` dicts are outside the statement and not enumerated",
]

AX = ("X", "Y")
PER = [True, False, [], ["X"], ["Y"], ["X", "Y"], {"X": True, "Y": False}, {"X": False, "Y": True}]
BND = [None, "fill", "extend", "periodic", {"X": "extend", "Y": "fill"}, {"X": "periodic"}, {"Y": "extend"}, {}]
FV = [None, 0, 3.5, {"X": 2.0, "Y": -1.0}, {"Y": 4.0}, {}]
# per-call spellings: the constructor lists plus mappings that name the same axes with other values
CALL_BND = BND + [{"X": "fill", "Y": "extend"}, {"X": "extend"}]
# numbers may also arrive as NumPy scalars or 0-d arrays: written here as tokens (they survive the JSON replay file)
# and decoded by num()
CALL_FV = FV + [{"X": -3.0, "Y": 0.0}, {"Y": 0.0}, "np.float32:2.5", {"X": "np.int64:-3", "Y": "np.0d:1.5"}]


def num(v):
    """token -> number object; anything else unchanged"""
    if isinstance(v, str) and v.startswith("np."):
        kind, val = v[3:].split(":")
        return np.array(float(val)) if kind == "0d" else getattr(np, kind)(float(val))
    return v


def decode(spec):
    return {k: num(v) for k, v in spec.items()} if isinstance(spec, dict) else num(spec)


def widths_for(tier, n):
    base = [
        ((1, 0), (0, 0)), ((0, 0), (0, 1)), ((0, 2), (0, 0)), ((0, 0), (2, 0)),
        ((1, 1), (1, 1)), ((2, 1), (1, 0)), ((0, 1), (1, 2)), ((n, 0), (0, n)),
        ((1, n), (n, 1)), ((0, 0), (0, 0)),
        # wider than the axis is long (a periodic halo then wraps around more than once)
        ((n + 2, 1), (0, 2 * n + 1)),
    ]
    if tier == "quick":
        base = base[:2] + base[4:]
    if tier == "thorough":
        vals = sorted({0, 1, 2, n})
        pairs = list(itertools.product(vals, repeat=2))
        extra = [(a, b) for a in pairs[::3] for b in pairs[1::4]]
        seen = set(base)
        for w in extra:
            if w not in seen and len(base) < 30:
                base.append(w)
                seen.add(w)
    return base


LAYOUTS = [
    ("xc", "yc"), ("yc", "xc"), ("t", "xc", "yc"), ("xo", "yc"), ("yo", "t", "xr"), ("xg", "yc"), ("yc", "t", "xg"), ("xc", "yg", "t"), ("xi", "yo"),
]
DIMLEN = lambda d, n: 2 if d == "t" else n + 1 if d[1] == "o" else n - 1 if d[1] == "i" else n


def make_grid(n, per, gb, gf):
    from xgcm import Grid

    ds = xr.Dataset(
        coords={
            "xc": ("xc", np.arange(n) + 0.5), "xg": ("xg", np.arange(n) * 1.0),
            "yc": ("yc", np.arange(n) + 0.5), "yg": ("yg", np.arange(n) * 1.0),
            "xo": ("xo", np.arange(n + 1) * 1.0), "xr": ("xr", np.arange(n) + 1.0), "xi": ("xi", np.arange(n - 1) + 1.0),
            "yo": ("yo", np.arange(n + 1) * 1.0),
            "t": ("t", np.arange(2)),
        }
    )
    coords = {"X": {"center": "xc", "left": "xg", "outer": "xo", "right": "xr", "inner": "xi"}, "Y": {"center": "yc", "left": "yg", "outer": "yo"}}
    with warnings.catch_warnings():
        warnings.simplefilter("ignore")
        return Grid(ds, coords=coords, periodic=per, boundary=gb, fill_value=gf, autoparse_metadata=False)


def is_periodic(per, ax):
    if per is True or per is False:
        return per
    if isinstance(per, list):
        return ax in per
    return per[ax] is True


def pick(spec, ax):
    if isinstance(spec, dict):
        return spec.get(ax)
    return spec


KNOWN_LIST = "list-periodic:unnamed-axis-stays-periodic"


def resolve(per, gb, gf, cb, cf, ax, defect=False):
    """defect=True: the recorded finding - an axis that a list-valued `periodic` does not
    name stays periodic - used only to *classify* an observed mismatch."""
    rule = pick(cb, ax)
    if rule is None:
        rule = pick(gb, ax)
    if rule is None:
        p = is_periodic(per, ax) or (defect and isinstance(per, list))
        rule = "periodic" if p else "fill"
    f = num(pick(cf, ax))
    if f is None:
        f = num(pick(gf, ax))
    if f is None:
        f = 0.0
    return rule, float(f)


def labels(shape, seed, which=0):
    size = int(np.prod(shape))
    base = np.arange(size, dtype=float) + 11
    if which:
        base = np.random.default_rng(seed + 1).permutation(base)
        # the second labelling carries one missing value: padding must leave it where it is
        base[size // 2] = np.nan
    return base.reshape(shape) * (1.0 if (seed + which) % 2 == 0 else -1.0) - (seed % 3)


def shards(tier, seed):
    return [(i, j) for i in range(len(PER)) for j in range(len(BND))]


def _copy(o):
    return dict(o) if isinstance(o, dict) else (list(o) if isinstance(o, list) else o)


def check_pad(rec, n, per, gb, gf, cb, cf, w, layout, seed, g=None, second=True):
    from xgcm.padding import pad

    case = dict(kind="pad", n=n, per=per, gb=gb, gf=gf, cb=cb, cf=cf, w=w, layout=list(layout))
    if g is None:
        try:
            g = make_grid(n, _copy(per), _copy(gb), _copy(gf))
        except Exception as e:
            rec.violation("constructor", "raise:" + exc_sig(e), case, "a Grid", f"{type(e).__name__}: {e}"[:200])
            return
    wx, wy = tuple(w[0]), tuple(w[1])
    shape = tuple(DIMLEN(d, n) for d in layout)
    ix = [i for i, d in enumerate(layout) if d[0] == "x"][0]
    iy = [i for i, d in enumerate(layout) if d[0] == "y"][0]
    rx = resolve(per, gb, gf, cb, cf, "X")
    ry = resolve(per, gb, gf, cb, cf, "Y")
    nz = any(wx) or any(wy)
    outs = []
    integral = all(r_[0] != "fill" or (r_[1] == r_[1] and float(r_[1]).is_integer()) for r_ in (rx, ry))
    for which in ((0, 1) + ((2,) if integral and nz else ()) if second else (0,)):
        if which == 2:
            # 64-bit integers beyond 2**53: every original value stays in place exactly (not merely to float precision)
            a0 = (np.arange(int(np.prod(shape)), dtype=np.int64) * 2 + 2 ** 53 + 1).reshape(shape) * (1 if seed % 2 == 0 else -1)
            rx = (rx[0], int(rx[1])) if rx[0] == "fill" else rx
            ry = (ry[0], int(ry[1])) if ry[0] == "fill" else ry
        else:
            a0 = labels(shape, seed, which)
        da = xr.DataArray(a0.copy(), dims=list(layout))
        try:
            # widths are given as tuples or as lists, alternately; the axes are listed in either order
            bw = {"X": wx, "Y": wy} if (wx[0] + wy[1]) % 2 == 0 else {"X": list(wx), "Y": list(wy)}
            if (wx[1] + wy[0] + len(layout)) % 2:
                bw = {"Y": bw["Y"], "X": bw["X"]}
            if which == 0 and (wx[0] + wy[0] + len(layout)) % 3 == 0:
                # the array handed over as a vector component {axis: array} (with its partner): on a grid without face
                # connections that is the same request
                r = pad({"X": da}, g, bw, boundary=_copy(cb), fill_value=decode(_copy(cf)), other_component={"Y": da * 0.5 - 1})
                if isinstance(r, dict):
                    r = r["X"]
            else:
                r = pad(da, g, bw, boundary=_copy(cb), fill_value=decode(_copy(cf)))
        except Exception as e:
            rec.case((n, per, gb, gf, cb, cf, w, layout), nz)
            rec.violation("pad", "raise:" + exc_sig(e), case, "padded array", f"{type(e).__name__}: {e}"[:200])
            return
        e1 = ref_pad(ref_pad(a0, ix, *wx, *rx), iy, *wy, *ry)
        e2 = ref_pad(ref_pad(a0, iy, *wy, *ry), ix, *wx, *rx)
        zero = ref_pad(ref_pad(a0, ix, *wx, "fill", 0.0), iy, *wy, "fill", 0.0)
        if which == 0:
            rec.case((n, per, gb, gf, cb, cf, w, layout), nz and not np.array_equal(e1, zero),
                     sample=case, calls=2 if second else 1)
        if tuple(r.dims) != tuple(layout):
            rec.violation("pad", "dims", case, list(layout), list(r.dims))
            return
        v = np.asarray(r.values)
        if v.shape != e1.shape:
            rec.violation("pad", "shape", case, list(e1.shape), list(v.shape))
            return
        if which == 2:
            # exact comparison in Python integers (corner cells aside, as below)
            got = [int(x) for x in v.ravel()]
            w1, w2 = [int(x) for x in e1.ravel()], [int(x) for x in e2.ravel()]
            if not all(a == b or a == c for a, b, c in zip(got, w1, w2)):
                rec.violation("pad", "large-integers-not-kept-exactly", dict(case, dtype="int64"), e1, v)
                return
            continue
        corner = np.zeros(e1.shape, bool)
        # cells new along both axes
        mx = np.ones(e1.shape[ix], bool); mx[wx[0]: wx[0] + a0.shape[ix]] = False
        my = np.ones(e1.shape[iy], bool); my[wy[0]: wy[0] + a0.shape[iy]] = False
        sx = [1] * v.ndim; sx[ix] = -1
        sy = [1] * v.ndim; sy[iy] = -1
        corner = mx.reshape(sx) & my.reshape(sy)
        corner = np.broadcast_to(corner, e1.shape)
        ok_edge = np.array_equal(v[~corner], e1[~corner], equal_nan=True)
        ok_corner = bool(np.all((v[corner] == e1[corner]) | (v[corner] == e2[corner]) | (np.isnan(v[corner]) & (np.isnan(e1[corner]) | np.isnan(e2[corner])))))
        if not ok_edge:
            # classify: interior moved or new cells wrong
            inner = np.zeros(e1.shape, bool)
            sl = [slice(None)] * v.ndim
            sl[ix] = slice(wx[0], wx[0] + a0.shape[ix]); sl[iy] = slice(wy[0], wy[0] + a0.shape[iy])
            cls = "interior-changed" if not np.array_equal(v[tuple(sl)], a0, equal_nan=True) else "new-cells"
            if isinstance(per, list):
                dx = resolve(per, gb, gf, cb, cf, "X", defect=True)
                dy = resolve(per, gb, gf, cb, cf, "Y", defect=True)
                d1 = ref_pad(ref_pad(a0, ix, *wx, *dx), iy, *wy, *dy)
                if (dx, dy) != (rx, ry) and np.array_equal(v[~corner], d1[~corner], equal_nan=True):
                    cls = KNOWN_LIST
            rec.violation("pad", cls, case, e1, v)
            return
        if not ok_corner:
            rec.violation("pad", "corner-cells", case, e1, v)
            return
        outs.append(v)


def check_axis_settings(rec, n, per, gb, gf, g):
    case = dict(kind="axis", n=n, per=per, gb=gb, gf=gf)
    rec.case(("axis", n, per, gb, gf), True, calls=1)
    for ax in AX:
        rule, f = resolve(per, gb, gf, None, None, ax)
        got = (g.axes[ax].boundary, float(g.axes[ax].fill_value))
        if got != (rule, f):
            cls = f"{ax}:expected-{rule}-got-{got[0]}" if got[0] != rule else f"{ax}:fill_value"
            if isinstance(per, list) and got == resolve(per, gb, gf, None, None, ax, defect=True):
                cls = KNOWN_LIST
            rec.violation("axis-setting", cls, case, [rule, f], list(got))
            return


def check_diff(rec, n, per, gb, gf, cb, cf, seed, g=None):
    """the same resolution seen through Grid.diff / Grid.interp with boundary kwargs"""
    case = dict(kind="diff", n=n, per=per, gb=gb, gf=gf, cb=cb, cf=cf)
    if g is None:
        try:
            g = make_grid(n, _copy(per), _copy(gb), _copy(gf))
        except Exception as e:
            rec.violation("constructor", "raise:" + exc_sig(e), case, "a Grid", f"{type(e).__name__}: {e}"[:200])
            return
    a0 = labels((n, n), seed)
    da = xr.DataArray(a0.copy(), dims=["xc", "yc"])
    rec.case(("diff", n, per, gb, gf, cb, cf), True, calls=2)
    for ax, axi, op in (("X", 0, "diff"), ("Y", 1, "interp")):
        rule, f = resolve(per, gb, gf, cb, cf, ax)
        try:
            r = getattr(g, op)(da, ax, to="left", boundary=_copy(cb), fill_value=decode(_copy(cf)))
        except Exception as e:
            rec.violation("grid-op", "raise:" + exc_sig(e), case, "array", f"{type(e).__name__}: {e}"[:200])
            return
        e = np.moveaxis(ref_stencil(np.moveaxis(a0, axi, -1), "center", "left", n, op, rule, f), -1, axi)
        if r.shape != e.shape or not np.array_equal(r.values, e):
            cls = f"{op}-values"
            if isinstance(per, list):
                drule, df = resolve(per, gb, gf, cb, cf, ax, defect=True)
                d = np.moveaxis(ref_stencil(np.moveaxis(a0, axi, -1), "center", "left", n, op, drule, df), -1, axi)
                if (drule, df) != (rule, f) and r.shape == d.shape and np.array_equal(r.values, d):
                    cls = KNOWN_LIST
            rec.violation("grid-op", cls, case, e, r.values)
            return


def run_shard(shard, tier, seed, rec):
    i, j = shard
    per, gb = PER[i], BND[j]
    ns = BOUNDS[tier]["n"]
    layouts = LAYOUTS[: BOUNDS[tier]["layouts"]]
    for n in ns:
        W = widths_for(tier, n)
        for gf in FV:
            case0 = dict(kind="pad", n=n, per=per, gb=gb, gf=gf, cb=None, cf=None, w=[[1, 0], [0, 1]], layout=["xc", "yc"])
            try:
                g = make_grid(n, _copy(per), _copy(gb), _copy(gf))
            except Exception as e:
                rec.case(("ctor", n, per, gb, gf), True)
                rec.violation("constructor", "raise:" + exc_sig(e), case0, "a Grid", f"{type(e).__name__}: {e}"[:200])
                continue
            # the constructor must not have rewritten the spellings it was given (C18 owns
            # that; here we only make sure our own later decoding is not confused by it)
            check_axis_settings(rec, n, per, gb, gf, g)
            for cb in CALL_BND:
                for cf in CALL_FV:
                    check_diff(rec, n, per, gb, gf, cb, cf, seed, g)
                    for li, layout in enumerate(layouts):
                        for wi, w in enumerate(W):
                            # full product for the first two layouts, diagonal for the rest
                            if li >= 2 and (wi + li) % 3:
                                continue
                            check_pad(rec, n, per, gb, gf, cb, cf, w, layout, seed, g, second=(wi + li) % 4 == 0)


def replay_case(case, seed, rec):
    k = case["kind"]
    if k == "pad":
        check_pad(rec, case["n"], case["per"], case["gb"], case["gf"], case["cb"], case["cf"],
                  [tuple(case["w"][0]), tuple(case["w"][1])], tuple(case["layout"]), seed)
    elif k == "diff":
        check_diff(rec, case["n"], case["per"], case["gb"], case["gf"], case["cb"], case["cf"], seed)
    elif k == "axis":
        try:
            g = make_grid(case["n"], _copy(case["per"]), _copy(case["gb"]), _copy(case["gf"]))
        except Exception as e:
            rec.violation("constructor", "raise:" + exc_sig(e), case, "a Grid", str(e)[:200])
            return
        check_axis_settings(rec, case["n"], case["per"], case["gb"], case["gf"], g)
