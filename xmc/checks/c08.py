"""C08  Linear and log transforms are exact piecewise-linear interpolation per column.

Kernel level: every strictly monotonic profile of a small lattice (both directions), stacked as
columns, x every sequence of 1-2 (quick) / 1-3 (thorough) target levels from the half-step lattice
extended beyond both ends x mask_edges x bypass_checks x {linear, log}.  API level:
Grid.transform with ndarray / 1-D / N-D targets, suffixes, layouts, chunking of the extra dim.
Oracle: exact rational piecewise-linear interpolant and the naming rule of the statement.
"""
import itertools
import warnings
from fractions import Fraction as F

import numpy as np
import xarray as xr

from ..core import exc_sig
from ..ref import transform as R

PID = "C08"
LEVEL = "exploration"
TECHNIQUE = "bounded exhaustive enumeration of monotonic lattice profiles x level sequences x flags (kernel, columns stacked) and API spellings, against an exact rational piecewise-linear interpolant"
RULE = (
    "case = (n, profile, level sequence, mask_edges, bypass_checks, method) / API spelling; non-trivial = a level lies strictly "
    "between two nodes or outside the range of target_data"
)
SPACE = {
    "quick": "kernel: n in {2,3}, all C(6,n) x 2 strictly monotonic profiles of {0..5}, all 15 + 225 level sequences of length 1-2 from {-1,-0.5,..,6}, mask_edges T/F, bypass_checks F (+T on increasing profiles), linear and log (powers of two); API: 3 target kinds x 2 suffixes x mask T/F x 2 methods x 2 layouts x chunkings x 8 column pairs + default target_data",
    "thorough": "n = 4 and level sequences of length 3 (every 2nd) as well",
}
BOUNDS = {"quick": {"n": [2, 3], "len": 2}, "thorough": {"n": [2, 3, 4], "len": 3}}
ASSUMPTIONS = [
    "numba stand-in runs the unmodified kernel source (numba's own lowering not covered)",
    "interpolation is linear in the data: basis rows give exact weights, a generic row checks linearity",
    "bypass_checks=True is only exercised on increasing profiles (the statement leaves the rest to the user)",
    "log method compared with rtol 1e-9 (np.log is not exact)",
]
LAT = (0, 1, 2, 3, 4, 5)
HALF = tuple(x / 2 for x in range(-2, 13))


def profiles(n):
    out = []
    for sub in itertools.combinations(LAT, n):
        out.append(tuple(sub))
        out.append(tuple(reversed(sub)))
    return out


def level_seqs(maxlen, tier):
    out = [(a,) for a in HALF]
    out += list(itertools.product(HALF, repeat=2))
    if maxlen >= 3:
        out += list(itertools.product(HALF, repeat=3))[::2]
    return out


AFFINE = ((1.0, 0.0), (0.001, 1000.0))  # target_data = offset + scale * lattice value


def kernel_missing_data(rec, n, levels, mask, seed):
    """data that is missing at both ends of a column (target_data complete): the interpolant between
    two finite nodes is still a finite number"""
    from xgcm.transform import interp_1d_linear

    if n < 3:
        return
    profs = profiles(n)
    P = len(profs)
    phi = (np.arange(n) * 2.0 + 1 + seed % 3)
    phi[0] = phi[-1] = np.nan
    th = np.array(profs, dtype=float)
    lv = np.array(levels, dtype=float)
    try:
        out = interp_1d_linear(np.broadcast_to(phi, (P, n)), th, lv, mask_edges=mask, bypass_checks=False, logarithmic=False)
    except Exception as e:
        rec.violation("kernel", "missing-data-raise:" + exc_sig(e), dict(level="kernel-nan", n=n, levels=list(levels), mask=mask, profile=list(profs[0])), "array", str(e)[:200])
        return
    for p, prof in enumerate(profs):
        case = dict(level="kernel-nan", n=n, levels=list(levels), mask=mask, profile=list(prof))
        rec.case(("kn", n, levels, mask, prof), True, sample=case if p == 2 else None, calls=1 if p == 0 else 0)
        inner = sorted(prof)[1:-1]
        for k, l in enumerate(levels):
            if not (min(inner) <= l <= max(inner)):
                continue  # bracketed by at least one missing node: not asserted
            w = R.interp_linear(prof, l, mask)
            e = float(sum(float(x) * v for x, v in zip(w, phi) if float(x) != 0.0))
            if not np.isclose(out[p, k], e, rtol=1e-12, atol=1e-12):
                rec.violation("kernel", "finite-interpolant-lost-next-to-missing-data", dict(case, k=k), e, float(out[p, k]))
                return


def kernel_log_nonpositive(rec, n, seed):
    """method 'log': a level that has no logarithm lies outside every range of (positive) target_data"""
    from xgcm.transform import interp_1d_linear

    profs = profiles(n)
    P = len(profs)
    phi = (np.arange(n) * 3.0 - 4 + seed % 3)
    for shift in (0, -4):  # target_data in [1, 32] and in [1/16, 2] (values below 1 have negative logarithms)
        th = 2.0 ** (np.array(profs, dtype=float) + shift)
        for levels in ((-1.5,), (0.0, 2.0 ** (1 + shift)), (2.0 ** (2 + shift), -0.25, -3.0)):
            lv = np.array(levels, dtype=float)
            case0 = dict(level="kernel-log", n=n, levels=list(levels), shift=shift)
            try:
                with np.errstate(all="ignore"):
                    out = interp_1d_linear(np.broadcast_to(phi, (P, n)), th, lv, mask_edges=True, bypass_checks=False, logarithmic=True)
            except Exception as e:
                rec.violation("kernel", "log-nonpositive-raise:" + exc_sig(e), dict(case0, profile=list(profs[0])), "array", str(e)[:200])
                return
            for p, prof in enumerate(profs):
                rec.case(("kl", n, levels, shift, prof), True, sample=dict(case0, profile=list(prof)) if p == 1 else None, calls=1 if p == 0 else 0)
                for k, l in enumerate(levels):
                    if l <= 0 and not np.isnan(out[p, k]):
                        rec.violation("kernel", "log-nonpositive-level-not-masked", dict(case0, profile=list(prof), k=k), "nan", float(out[p, k]))
                        return


def kernel_case(rec, n, levels, mask, bypass, log, seed, aff=0):
    from xgcm.transform import interp_1d_linear

    profs = profiles(n)
    if bypass:
        profs = [p for p in profs if p[0] < p[-1]]
    P = len(profs)
    phi = np.vstack([np.eye(n), (np.arange(n) * 3.0 - 4 + seed % 3)[None, :]])
    th = np.array(profs, dtype=float)[:, None, :]
    lv = np.array(levels, dtype=float)
    if log:
        th, lv = 2.0 ** th, 2.0 ** lv
    elif aff:
        # weak stratification on a large background value; levels exactly on the (scaled) nodes stay exact
        sc, off = AFFINE[aff]
        th, lv = off + sc * th, off + sc * lv
    phi_b = np.broadcast_to(phi[None], (P,) + phi.shape)
    th_b = np.broadcast_to(th, (P, phi.shape[0], n))
    base = dict(level="kernel", n=n, levels=list(levels), mask=mask, bypass=bypass, log=log, aff=aff)
    try:
        out = interp_1d_linear(phi_b, th_b, lv, mask_edges=mask, bypass_checks=bypass, logarithmic=log)
    except Exception as e:
        rec.case(("k", n, levels, mask, bypass, log), True)
        rec.violation("kernel", "raise:" + exc_sig(e), dict(base, profile=list(profs[0])), "array", f"{type(e).__name__}: {e}"[:200])
        return
    m = len(levels)
    for p, prof in enumerate(profs):
        case = dict(base, profile=list(prof))
        lo, hi = min(prof), max(prof)
        nontriv = any((l < lo or l > hi or l not in prof) for l in levels)
        rec.case(("k", n, levels, mask, bypass, log, prof, aff), nontriv, sample=case if p == 3 else None, calls=1 if p == 0 else 0)
        if out.shape != (P, n + 1, m):
            rec.violation("kernel", "shape", case, [P, n + 1, m], list(out.shape))
            return
        for k, l in enumerate(levels):
            w = R.interp_linear(prof, l, mask)
            got = out[p, :n, k]
            if w is None:
                if not np.all(np.isnan(out[p, :, k])):
                    rec.violation("kernel", "outside-range-not-masked", dict(case, k=k), "nan", out[p, :, k])
                    return
                continue
            wf = np.array([float(x) for x in w])
            if np.any(np.isnan(got)):
                cls = "masked-at-or-inside-range" + (":at-end-value" if l in (lo, hi) else "")
                rec.violation("kernel", cls, dict(case, k=k), wf, got)
                return
            tolk = 1e-9 if log else (1e-6 if aff else 1e-13)
            if not np.allclose(got, wf, rtol=tolk, atol=tolk):
                cls = "weights" + (":decreasing-profile" if prof[0] > prof[-1] else "") + (":outside-range" if (l < lo or l > hi) else "")
                rec.violation("kernel", cls, dict(case, k=k), wf, got)
                return
            gen = out[p, n, k]
            if not np.isclose(gen, float(wf @ phi[n]), rtol=1e-9, atol=1e-9):
                rec.violation("kernel", "not-linear-in-data", dict(case, k=k), float(wf @ phi[n]), float(gen))
                return


# ------------------------------------------------------------------ API
COLS = [((0, 1, 3), (5, 3, 0)), ((0, 2, 5), (1, 2, 3)), ((4, 2, 1), (5, 4, 0)), ((1, 3, 4), (4, 3, 1)),
        ((0, 1, 2), (0, 1, 2)), ((5, 1, 0), (0, 4, 5)), ((2, 3, 5), (3, 2, 0)), ((0, 3, 4), (5, 2, 1))]
API_LEVELS = [(0.5, 1.5, 4.0), (6.0, 2.0, -1.0, 3.0), (1.0,), (0.0, 5.0, 2.5),
              # one unit in the last place beyond / inside the possible end values (linear, double precision only)
              tuple(float(np.nextafter(v, np.inf)) for v in (3.0, 4.0, 5.0)) + tuple(float(np.nextafter(v, -np.inf)) for v in (0.0, 1.0, 5.0)),
              # levels that happen to equal the axis coordinate of the data (which the data then carries)
              (0.5, 1.5, 2.5)]
ULP_LEVELS = 4
COORD_LEVELS = 5


_API_GRID = {}


def api_case(rec, ci, li, tkind, suffix, mask, method, layout, chunk, seed, prec="f8"):
    """prec 'mixed': float32 data with float64 target_data and levels scaled by 0.1 (end values that
    float32 cannot represent: a level exactly on an end value must stay unmasked)"""
    from xgcm import Grid

    case = dict(level="api", ci=ci, li=li, tkind=tkind, suffix=suffix, mask=mask, method=method, layout=layout, chunk=chunk, prec=prec)
    scale = 0.1 if prec == "mixed" else 1.0
    nz = 3
    g = _API_GRID.get("g")
    if g is None:
        # one Grid object serves every API case of a shard (same names and shapes, other values)
        ds = xr.Dataset(coords={"zc": ("zc", np.arange(nz) + 0.5), "zo": ("zo", np.arange(nz + 1.0)), "x": ("x", [0, 1])})
        with warnings.catch_warnings():
            warnings.simplefilter("ignore")
            g = _API_GRID["g"] = Grid(ds, coords={"Z": {"center": "zc", "outer": "zo"}}, periodic=False, autoparse_metadata=False)
    profs = COLS[ci]
    levels = API_LEVELS[li]
    if li == ULP_LEVELS and (method != "linear" or prec not in ("f8", "shared")):
        return
    if prec == "i8" and method != "linear":
        return
    if prec == "shared":
        # one 1-D profile (without the extra dimension of the data) serves both columns
        profs = (profs[0], profs[0])
    phi = np.array([[1.0, 2.0, 4.0], [10.0 + seed % 2, -20.0, 40.0]])
    # the result is named input name + suffix, also when the input name already ends in that suffix (a chained transform)
    in_name = "temp" if (ci + li + (1 if mask else 0)) % 4 else "temp" + ("_transformed" if suffix is None else suffix)
    da = xr.DataArray(phi.astype(np.float32) if prec == "mixed" else phi.astype(np.int64) if prec == "i8" else phi, dims=["x", "zc"], name=in_name)
    if li == COORD_LEVELS:
        da = da.assign_coords(zc=("zc", np.arange(nz) + 0.5))
    thv = np.array(profs, dtype=float)
    lvv = np.array(levels, dtype=float)
    if method == "log":
        thv, lvv = 2.0 ** thv, 2.0 ** lvv
    elif prec == "mixed":
        thv, lvv = thv * scale, lvv * scale
    td = xr.DataArray(thv, dims=["x", "zc"], name="dens")
    if prec == "shared":
        td = td.isel(x=0, drop=True)
    if layout == "zx":
        da, td = da.transpose("zc", "x"), td.transpose(*reversed(td.dims))
    if chunk:
        da, td = da.chunk({"x": tuple(chunk)}), (td.chunk({"x": tuple(chunk)}) if "x" in td.dims else td)
    kw = dict(target_data=td, mask_edges=mask, method=method)
    # documented defaults left out in part of the cases: mask_edges=True, method="linear"
    if mask and (ci + li) % 2:
        del kw["mask_edges"]
    if method == "linear" and (ci + li + (0 if suffix is None else 1)) % 3 == 0:
        del kw["method"]
    if suffix is not None:
        kw["suffix"] = suffix
    if tkind == "nd":
        target, newdim = lvv, "dens"
    elif tkind == "da":
        target, newdim = xr.DataArray(lvv, dims=["lev"], name="whatever"), "lev"
    else:  # N-D target: a different level set per column, target_dim given
        lv2 = np.stack([lvv, lvv[::-1]])
        target, newdim = xr.DataArray(lv2, dims=["x", "lev"]), "lev"
        kw["target_dim"] = "lev"
    rec.case(tuple(sorted(case.items(), key=str)), True, sample=case)
    before = (np.array(da.values), np.array(td.values), np.array(lvv))
    try:
        with warnings.catch_warnings():
            warnings.simplefilter("ignore")
            r = g.transform(da, "Z", target, **kw)
            v = r.compute() if chunk else r
    except Exception as e:
        rec.violation("api", "raise:" + exc_sig(e), case, "array", f"{type(e).__name__}: {e}"[:200])
        return
    # the inputs are still what they were (a second transform on the same arrays must see the same data)
    if not (np.array_equal(before[0], da.values) and np.array_equal(before[1], td.values) and np.array_equal(before[2], lvv)):
        which = "data" if not np.array_equal(before[0], da.values) else "target_data" if not np.array_equal(before[1], td.values) else "target"
        rec.violation("api", "input-overwritten:" + which, case, "inputs unchanged", which + " changed")
        return
    if set(v.dims) != {"x", newdim}:
        rec.violation("api", "new-dimension-name", case, ["x", newdim], list(v.dims))
        return
    want_name = in_name + ("_transformed" if suffix is None else suffix)
    if v.name != want_name:
        rec.violation("api", "result-name", case, want_name, v.name)
        return
    got = v.transpose("x", newdim).values
    for c in range(2):
        lv_c = levels if tkind != "ndim" or c == 0 else levels[::-1]
        for k, l in enumerate(lv_c):
            w = R.interp_linear(profs[c], l, mask)
            if w is None:
                if not np.isnan(got[c, k]):
                    rec.violation("api", "outside-range-not-masked", dict(case, column=c, k=k), "nan", float(got[c, k]))
                    return
                continue
            e = float(sum(float(x) * p for x, p in zip(w, phi[c])))
            if np.isnan(got[c, k]) or not np.isclose(got[c, k], e, rtol=1e-9 if prec != "mixed" else 1e-5, atol=1e-9 if prec != "mixed" else 1e-5):
                cls = "values" + (":mixed-precision" if prec == "mixed" else ":shared-profile" if prec == "shared" else ":integer-data" if prec == "i8" else "") + (":masked-on-end-value" if np.isnan(got[c, k]) else "") + (":decreasing-profile" if profs[c][0] > profs[c][-1] else "") + (":column-mixup" if c == 1 else "")
                rec.violation("api", cls, dict(case, column=c, k=k), e, float(got[c, k]))
                return


def api_default_td(rec, seed):
    """target_data omitted: the axis coordinate of the dataset is used (increasing or decreasing, the axis
    dimension of the data last, first or in the middle)"""
    from xgcm import Grid

    for zc_vals, zo_vals in (((0.5, 1.5, 3.5), (0.0, 1.0, 2.0, 5.0)), ((3.5, 1.5, 0.5), (5.0, 2.0, 1.0, 0.0))):
        for dims in (("x", "zc"), ("zc", "x"), ("x", "zc", "y")):
            for mask, carry in ((True, "own"), (False, "own"), (True, "none"), (False, "other")):
                case = dict(level="api-default", zc=list(zc_vals), dims=list(dims), mask=mask, carry=carry)
                ds = xr.Dataset(coords={"zc": ("zc", np.array(zc_vals)), "zo": ("zo", np.array(zo_vals)), "x": ("x", [0, 1])})
                with warnings.catch_warnings():
                    warnings.simplefilter("ignore")
                    g = Grid(ds, coords={"Z": {"center": "zc", "outer": "zo"}}, periodic=False, autoparse_metadata=False)
                phi = np.array([[1.0, 2.0, 4.0], [10.0, -20.0, 40.0]])
                # the data carries the dataset's coordinate, none, or other labels: the default target data is the Grid's
                da = xr.DataArray(phi, dims=["x", "zc"], name="temp", coords={"zc": ds.zc} if carry == "own" else {"zc": ("zc", [10.0, 20.0, 30.0])} if carry == "other" else None)
                if "y" in dims:
                    da = xr.concat([da, da * 3 - 1], dim="y")
                da = da.transpose(*dims)
                levels = (0.5, 1.0, 2.5, 3.5, 4.0)
                rec.case(("api-default", zc_vals, dims, mask, carry), True, sample=case)
                try:
                    with warnings.catch_warnings():
                        warnings.simplefilter("ignore")
                        r = g.transform(da, "Z", np.array(levels), mask_edges=mask)
                except Exception as e:
                    rec.violation("api", "default-target-data-raise:" + exc_sig(e), case, "array", f"{type(e).__name__}: {e}"[:200])
                    continue
                if set(r.dims) != set(dims):
                    rec.violation("api", "default-target-data-dims", case, list(dims), list(r.dims))
                    continue
                got = (r.isel(y=0) if "y" in dims else r).transpose("x", "zc").values
                bad = False
                for c in range(2):
                    for k, l in enumerate(levels):
                        w = R.interp_linear(zc_vals, l, mask)
                        e = np.nan if w is None else float(sum(float(x) * p for x, p in zip(w, phi[c])))
                        if not np.isclose(got[c, k], e, equal_nan=True):
                            rec.violation("api", "default-target-data-values", case, e, float(got[c, k]))
                            bad = True
                            break
                    if bad:
                        break


def api_two_extra_dims(rec, seed, only=None):
    """data and target_data with two extra dimensions of equal length, each stored in every dimension order: columns are
    matched by dimension *name*, whatever the orders (and the chunking of the extra dimensions) are"""
    from xgcm import Grid

    nz = 3
    ds = xr.Dataset(coords={"zc": ("zc", np.arange(nz) + 0.5), "zo": ("zo", np.arange(nz + 1.0)), "x": ("x", [0, 1]), "y": ("y", [0, 1])})
    with warnings.catch_warnings():
        warnings.simplefilter("ignore")
        g = Grid(ds, coords={"Z": {"center": "zc", "outer": "zo"}}, periodic=False, autoparse_metadata=False)
    profs = {(0, 0): (0, 1, 2), (0, 1): (5, 3, 0), (1, 0): (1, 2, 5), (1, 1): (0, 4, 5)}  # [(x, y)]
    phi = np.arange(12.0).reshape(2, 2, 3) ** 2 - 7 * (seed % 3 + 1)
    levels = (0.5, 1.0, 2.5, 3.5, 4.0, 5.0)
    thv = np.array([[profs[(i, j)] for j in range(2)] for i in range(2)], dtype=float)
    orders = list(itertools.permutations(("x", "y", "zc")))
    for do in orders:
        for to_ in orders:
            for method in ("linear", "log"):
                for chunk in (None, {"x": 1}, {"y": 1}):
                    for mask in (True, False):
                        case = dict(level="api-2d", data_dims=list(do), target_data_dims=list(to_), method=method, chunk=chunk, mask=mask)
                        if only is not None and only != case:
                            continue
                        da = xr.DataArray(phi, dims=["x", "y", "zc"], name="temp").transpose(*do)
                        td = xr.DataArray(2.0 ** thv if method == "log" else thv, dims=["x", "y", "zc"], name="dens").transpose(*to_)
                        lv = np.array(levels)
                        if chunk:
                            da, td = da.chunk(chunk), td.chunk(chunk)
                        rec.case(("api-2d", do, to_, method, str(chunk), mask), True, sample=case)
                        try:
                            with warnings.catch_warnings():
                                warnings.simplefilter("ignore")
                                r = g.transform(da, "Z", 2.0 ** lv if method == "log" else lv, target_data=td, method=method, mask_edges=mask)
                                r = r.compute()
                        except Exception as e:
                            rec.violation("api", "two-extra-dims-raise:" + exc_sig(e), case, "array", f"{type(e).__name__}: {e}"[:200])
                            continue
                        if set(r.dims) != {"x", "y", "dens"}:
                            rec.violation("api", "two-extra-dims:dims", case, ["x", "y", "dens"], list(r.dims))
                            continue
                        got = r.transpose("x", "y", "dens").values
                        bad = False
                        for (i, j), pr in profs.items():
                            for k, l in enumerate(levels):
                                w = R.interp_linear(pr, l, mask)
                                e = np.nan if w is None else float(sum(float(x) * p_ for x, p_ in zip(w, phi[i, j])))
                                if not np.isclose(got[i, j, k], e, equal_nan=True, rtol=1e-9, atol=1e-9):
                                    rec.violation("api", "two-extra-dims:values", dict(case, column=[i, j], k=k), e, float(got[i, j, k]))
                                    bad = True
                                    break
                            if bad:
                                break


def api_cases(tier):
    out = []
    k = 0
    for ci in range(len(COLS)):
        for li in range(len(API_LEVELS)):
            for tkind in ("nd", "da", "ndim"):
                for mask in (True, False):
                    for method in ("linear", "log"):
                        k += 1
                        variants = [(None, "xz", None), ("_on_rho", "zx", None), (None, "xz", [1, 1]), ("", "zx", [2])]
                        if tier == "quick":
                            variants = [variants[k % 4], variants[(k + 2) % 4]]
                        for suffix, layout, chunk in variants:
                            out.append((ci, li, tkind, suffix, mask, method, layout, chunk, "f8"))
                        if method == "linear":
                            out.append((ci, li, tkind, None, mask, method, "xz", None, "mixed"))
                            # integer-typed data: interpolated values are not integers
                            out.append((ci, li, tkind, None, mask, method, "zx" if k % 2 else "xz", None, "i8"))
                        if tkind != "ndim":
                            # a 1-D target_data shared by the columns, the axis dimension last and first
                            out.append((ci, li, tkind, None, mask, method, "xz", None, "shared"))
                            out.append((ci, li, tkind, None, mask, method, "zx", None, "shared"))
    return out


def shards(tier, seed):
    sh = []
    seqs = level_seqs(BOUNDS[tier]["len"], tier)
    for n in BOUNDS[tier]["n"]:
        for lo in range(0, len(seqs), 60):
            sh.append(("k", n, lo, min(lo + 60, len(seqs))))
    ac = api_cases(tier)
    sh += [("api", lo, min(lo + 50, len(ac))) for lo in range(0, len(ac), 50)]
    sh.append(("default",))
    sh.append(("2d",))
    sh += [("lognp", n) for n in BOUNDS[tier]["n"]]
    return sh


def run_shard(shard, tier, seed, rec):
    if shard[0] == "k":
        _, n, lo, hi = shard
        seqs = level_seqs(BOUNDS[tier]["len"], tier)
        for levels in seqs[lo:hi]:
            for mask in (True, False):
                for bypass in (False, True):
                    for log in (False, True):
                        kernel_case(rec, n, levels, mask, bypass, log, seed)
                    if not bypass:
                        kernel_case(rec, n, levels, mask, bypass, False, seed, aff=1)
                        kernel_missing_data(rec, n, levels, mask, seed)
    elif shard[0] == "lognp":
        kernel_log_nonpositive(rec, shard[1], seed)
    elif shard[0] == "api":
        _API_GRID.clear()
        for c in api_cases(tier)[shard[1]: shard[2]]:
            api_case(rec, *c[:8], seed, prec=c[8])
    elif shard[0] == "2d":
        api_two_extra_dims(rec, seed)
    else:
        api_default_td(rec, seed)


def replay_case(case, seed, rec):
    if case["level"] == "kernel-nan":
        rec.MAXVIOL = 10 ** 6
        kernel_missing_data(rec, case["n"], tuple(case["levels"]), case["mask"], seed)
        rec.viol = [v for v in rec.viol if v["case"].get("profile") == case["profile"]]
    elif case["level"] == "kernel-log":
        rec.MAXVIOL = 10 ** 6
        kernel_log_nonpositive(rec, case["n"], seed)
        rec.viol = [v for v in rec.viol if v["case"].get("profile") == case["profile"] and v["case"].get("levels") == case["levels"] and v["case"].get("shift") == case["shift"]]
    elif case["level"] == "kernel":
        rec.MAXVIOL = 10 ** 6
        kernel_case(rec, case["n"], tuple(case["levels"]), case["mask"], case["bypass"], case["log"], seed, aff=case.get("aff", 0))
        rec.viol = [v for v in rec.viol if v["case"].get("profile") == case["profile"]]
    elif case["level"] == "api-2d":
        api_two_extra_dims(rec, seed, only={k: v for k, v in case.items() if k not in ("column", "k")})
    elif case["level"] == "api":
        _API_GRID.clear()
        api_case(rec, case["ci"], case["li"], case["tkind"], case["suffix"], case["mask"], case["method"], case["layout"], case["chunk"], seed, prec=case.get("prec", "f8"))
    else:
        rec.MAXVIOL = 10 ** 6
        api_default_td(rec, seed)
        rec.viol = [v for v in rec.viol if {k: v["case"].get(k) for k in ("zc", "dims", "mask", "carry")} == {k: case.get(k, "own") for k in ("zc", "dims", "mask", "carry")}][:1]
