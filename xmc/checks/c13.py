"""C13  Axis, dimension and variable names are opaque labels.

A fixed battery of call sequences (explicit / COMODO / SGRID construction, all Grid operations
with the axis given as str and as list, metrics, a two-axis grid ufunc, linear and conservative
transform, a face-connected grid) is run for every assignment of a pool of adversarial identifiers
to one naming role and to pairs of roles (all other roles canonical, injective).  Oracle
(differential, no hand-written expected values): the renamed run, renamed back, equals the
canonical run in accept/reject, values, dims, coordinate names and result names.
"""
import itertools
import warnings

import numpy as np
import xarray as xr

from ..core import exc_sig

PID = "C13"
LEVEL = "exploration"
TECHNIQUE = "bounded exhaustive enumeration of (naming role(s), adversarial identifier(s)) assignments; differential oracle: renamed run renamed back == canonical run on the real code"
RULE = (
    "case = (section of the battery, {role: name}); non-trivial = the name shares a character sequence with a position word, "
    "with another name in play, or with an internal temporary"
)
SPACE = {
    "quick": "25 roles x 60 pool names (every single assignment) + 46 related role pairs x 72 ordered pairs of 9 substring/prefix/case-related names; 7 battery sections, only the sections that use a role are re-run",
    "thorough": "all role pairs within a section x the 42 ordered name pairs",
}
BOUNDS = {"quick": {}, "thorough": {}}
ASSUMPTIONS = [
    "the five position words themselves are excluded as names (as the property says)",
    "accept/reject is compared as returned-vs-raised; exception types and messages may mention names",
    "dimensions called 'drop', 'indexers' or 'missing_dims' are not exercised on the face-connected path: xarray's own DataArray.squeeze() fails for them",
]

POOL = ["c", "e", "n", "t", "r", "l", "f", "i", "o", "u", "x", "g", "T", "xleft", "center1", "inner_x", "outerspace", "cent", "xx", "xc2",
        "XC", "Xc", "abcdefghijkl", "temp_unique", "temp_dim_target", "ydummy", "remapped", "dim_0", "TRANSFORMED_DIMENSION", "Xdummy",
        # spelled like a parameter of the xarray / numpy / dask functions the library calls, or like one of its own keyword arguments
        "mode", "constant_values", "pad_width", "dim", "axis", "keep_attrs", "drop", "name", "dims", "kwargs", "boundary", "to", "depth", "func",
        # words of the metadata conventions the parsers read
        "padding", "high", "low", "both", "none", "node", "face",
        # parameter names of DataArray.rename / isel / transpose / pad
        "new_name_or_name_dict", "names", "indexers", "missing_dims", "transpose_coords", "end_values",
        # identifiers outside ASCII (Python identifiers all the same), and one that starts with an underscore / a digit-free mix
        "\u03be", "l\u00e4nge", "_9"]
# DataArray.squeeze() of the pinned xarray fails for a dimension called "drop", "indexers" or "missing_dims" (keywords of the
# isel it calls); the face-connected
# padding path relies on it, so that one (name, section) combination is outside what xgcm can be held to
XARRAY_CANNOT = {("drop", "faces"), ("indexers", "faces"), ("missing_dims", "faces")}
# substring / prefix / case relations, and a name next to the same name with the affixes the library uses for temporaries
PAIRPOOL = ["x", "xx", "xc", "xc2", "XC", "Xc", "cx", "_x", "xdummy"]

CANON = dict(
    ax_X="X", ax_Y="Y", ax_Z="Z", dim_xc="xc", dim_xg="xg", dim_xo="xo", dim_yc="yc", dim_yg="yg", dim_zc="zc", dim_zo="zo",
    dim_time="time", var_temp="temp", var_dxc="dxc", var_dxg="dxg", var_dyc="dyc", coord_depth="depth", dummy_p="p", dummy_q="q",
    td_name="dens", target_dim="lev", sg_xcell="xi_rho", sg_xnode="xi_psi", sg_ycell="eta_rho", sg_ynode="eta_psi", dim_face="face",
)
ROLE_SECTIONS = dict(
    ax_X=("ops", "metrics", "metrics3", "ufunc", "comodo", "faces"), ax_Y=("ops", "metrics", "metrics3", "ufunc", "comodo", "faces"), ax_Z=("transform", "metrics3"),
    dim_xc=("ops", "metrics", "ufunc", "comodo", "faces"), dim_xg=("ops", "metrics", "ufunc", "comodo", "faces"), dim_xo=("ops",),
    dim_yc=("ops", "metrics", "ufunc", "comodo", "faces"), dim_yg=("ops", "metrics", "ufunc", "faces"),
    dim_zc=("transform",), dim_zo=("transform",), dim_time=("ops", "metrics", "ufunc", "transform", "faces"),
    var_temp=("ops", "metrics", "transform"), var_dxc=("metrics",), var_dxg=("metrics",), var_dyc=("metrics",), coord_depth=("ops",),
    dummy_p=("ufunc",), dummy_q=("ufunc",), td_name=("transform",), target_dim=("transform",),
    sg_xcell=("sgrid",), sg_xnode=("sgrid",), sg_ycell=("sgrid",), sg_ynode=("sgrid",), dim_face=("faces",),
)
SECTIONS = ("ops", "metrics", "metrics3", "ufunc", "transform", "comodo", "sgrid", "faces")


def names_for(assign):
    n = dict(CANON)
    n.update(assign)
    return n


DUMMIES = ("dummy_p", "dummy_q")


def back(nm):
    inv = {v: CANON[k] for k, v in nm.items() if k not in DUMMIES}
    vt = nm["var_temp"]

    def b(s):
        if s in inv:
            return inv[s]
        # result names are the input name plus a suffix
        if isinstance(s, str) and s.startswith(vt + "_"):
            return CANON["var_temp"] + s[len(vt):]
        return s

    return b


def outcome(nm, fn):
    b = back(nm)
    try:
        with warnings.catch_warnings():
            warnings.simplefilter("ignore")
            r = fn()
    except Exception as e:
        return ("raise",), e
    return canon(r, b), None


def canon(r, b):
    if isinstance(r, xr.DataArray):
        if r.chunks is not None:
            r = r.compute()
        return ("DA", b(r.name) if isinstance(r.name, str) else r.name, tuple(b(d) for d in r.dims), tuple(r.shape),
                np.ascontiguousarray(np.asarray(r.values, dtype=float)).tobytes(), tuple(sorted(b(str(c)) for c in r.coords)))
    if isinstance(r, (list, tuple)):
        return ("T",) + tuple(canon(x, b) for x in r)
    if isinstance(r, dict):
        return ("D",) + tuple(sorted((b(str(k)), canon(v, b)) for k, v in r.items()))
    return ("V", b(r) if isinstance(r, str) else repr(r))


# ------------------------------------------------------------------ battery sections
def base_ds(nm):
    nx, ny = 3, 2
    N = nm
    ds = xr.Dataset(coords={
        N["dim_xc"]: (N["dim_xc"], np.arange(nx) + 0.5), N["dim_xg"]: (N["dim_xg"], np.arange(nx) * 1.0), N["dim_xo"]: (N["dim_xo"], np.arange(nx + 1) * 1.0),
        N["dim_yc"]: (N["dim_yc"], np.arange(ny) + 0.5), N["dim_yg"]: (N["dim_yg"], np.arange(ny) * 1.0), N["dim_time"]: (N["dim_time"], [0.0, 1.0]),
    })
    ds = ds.assign_coords({N["coord_depth"]: ((N["dim_yc"], N["dim_xc"]), np.arange(ny * nx).reshape(ny, nx) * 1.0 + 10)})
    ds[N["var_dxc"]] = ((N["dim_xc"],), np.array([1.0, 2.0, 4.0]))
    ds[N["var_dxg"]] = ((N["dim_xg"],), np.array([0.5, 1.0, 2.0]))
    ds[N["var_dyc"]] = ((N["dim_yc"],), np.array([2.0, 8.0]))
    temp = xr.DataArray(((np.arange(2 * ny * nx) * 7) % 11).astype(float).reshape(2, ny, nx), dims=[N["dim_time"], N["dim_yc"], N["dim_xc"]], name=N["var_temp"])
    return ds, temp


def grid_coords(N):
    return {N["ax_X"]: {"center": N["dim_xc"], "left": N["dim_xg"], "outer": N["dim_xo"]}, N["ax_Y"]: {"center": N["dim_yc"], "left": N["dim_yg"]}}


def sec_ops(nm):
    from xgcm import Grid
    from xgcm.padding import pad

    N = nm
    out = []
    ds, temp = base_ds(N)
    X, Y = N["ax_X"], N["ax_Y"]
    r, e = outcome(N, lambda: Grid(ds, coords=grid_coords(N), periodic=False, boundary={X: "extend", Y: "fill"}, fill_value={Y: 3.0}, autoparse_metadata=False))
    g = None
    try:
        with warnings.catch_warnings():
            warnings.simplefilter("ignore")
            g = Grid(ds, coords=grid_coords(N), periodic=False, boundary={X: "extend", Y: "fill"}, fill_value={Y: 3.0}, autoparse_metadata=False)
        out.append(("construct", ("ok", tuple(back(N)(a) for a in g.axes), tuple(g.axes[a].boundary for a in g.axes)), None))
    except Exception as e:
        out.append(("construct", ("raise",), e))
        return out
    tc = temp.assign_coords({N["coord_depth"]: ds[N["coord_depth"]]})
    calls = [
        ("diff-str", lambda: g.diff(temp, X)), ("diff-list", lambda: g.diff(temp, [X])), ("interp-2", lambda: g.interp(temp, [X, Y])),
        ("interp-to-map", lambda: g.interp(temp, [Y, X], to={X: "outer", Y: "left"}, boundary={X: "fill"}, fill_value={X: -1.0, Y: 2.0})),
        ("min", lambda: g.min(temp, Y, boundary="extend")), ("max-outer", lambda: g.max(temp, X, to="outer")),
        ("cumsum", lambda: g.cumsum(temp, X, to="left", boundary="fill")), ("cumsum-2", lambda: g.cumsum(temp, [X, Y], to={X: "outer", Y: "left"})),
        ("diff-keep", lambda: g.diff(tc, X, keep_coords=True)), ("pad", lambda: pad(temp, g, {X: (1, 2), Y: (0, 1)}, boundary={X: "periodic"})),
        ("repr", lambda: repr(g).replace(X, "<X>").replace(Y, "<Y>")[:0]),
    ]
    # a Grid with its own default shift for one axis: operations without `to` follow it
    def _gd():
        with warnings.catch_warnings():
            warnings.simplefilter("ignore")
            return Grid(ds, coords=grid_coords(N), periodic=False, boundary="extend", autoparse_metadata=False, default_shifts={X: {"center": "outer"}})

    calls += [("dshift-interp", lambda: _gd().interp(temp, X)), ("dshift-cumsum", lambda: _gd().cumsum(temp, X)), ("dshift-diff-2", lambda: _gd().diff(temp, [Y, X]))]
    for lab, fn in calls:
        r, e = outcome(N, fn)
        out.append((lab, r, e))
    return out


def sec_metrics(nm):
    from xgcm import Grid

    N = nm
    out = []
    ds, temp = base_ds(N)
    X, Y = N["ax_X"], N["ax_Y"]
    try:
        with warnings.catch_warnings():
            warnings.simplefilter("ignore")
            g = Grid(ds, coords=grid_coords(N), periodic=False, boundary="extend", autoparse_metadata=False,
                     metrics={(X,): [N["var_dxc"], N["var_dxg"]], (Y,): [N["var_dyc"]]})
        out.append(("construct", ("ok",), None))
    except Exception as e:
        return [("construct", ("raise",), e)]
    calls = [
        ("integrate-str", lambda: g.integrate(temp, X)), ("integrate-list", lambda: g.integrate(temp, [X, Y])), ("average", lambda: g.average(temp, Y)),
        ("average-tuple", lambda: g.average(temp, (Y, X))), ("derivative", lambda: g.derivative(temp, X)), ("cumint", lambda: g.cumint(temp, X, to="left", boundary="fill")),
        ("mw", lambda: g.diff(temp, X, metric_weighted=(X, Y))), ("mw-str", lambda: g.interp(temp, Y, metric_weighted=Y)),
        ("mw-map", lambda: g.interp(temp, [X, Y], metric_weighted={X: (X,), Y: (Y,)})),
        ("mw-map-str", lambda: g.interp(temp, [X, Y], metric_weighted={X: X, Y: [Y]})), ("mw-map-str1", lambda: g.diff(temp, Y, metric_weighted={Y: Y})),
        ("get_metric", lambda: g.get_metric(temp, (X, Y))), ("get_metric-str", lambda: g.get_metric(temp, X)),
        ("set_metrics", lambda: (g.set_metrics(X, N["var_dxc"], overwrite=True), g.get_metric(temp, [X]))[1]),
        ("interp_like", lambda: g.interp_like(ds[N["var_dxg"]], temp)),
    ]
    for lab, fn in calls:
        r, e = outcome(N, fn)
        out.append((lab, r, e))
    return out


def sec_metrics3(nm):
    """three axes; a metric for the pair (X, Y) registered before the single-axis ones: which registry entry answers a
    request is decided by the *set* of axis names, whatever the names are (e.g. a third axis called like X and Y joined)"""
    from xgcm import Grid

    N = nm
    out = []
    nx, ny, nz = 3, 2, 2
    ds = xr.Dataset(coords={N["dim_xc"]: (N["dim_xc"], np.arange(nx) + 0.5), N["dim_xg"]: (N["dim_xg"], np.arange(nx) * 1.0),
                            N["dim_yc"]: (N["dim_yc"], np.arange(ny) + 0.5), N["dim_yg"]: (N["dim_yg"], np.arange(ny) * 1.0),
                            N["dim_zc"]: (N["dim_zc"], np.arange(nz) + 0.5), N["dim_zo"]: (N["dim_zo"], np.arange(nz + 1) * 1.0)})
    ds["cellarea"] = ((N["dim_yc"], N["dim_xc"]), np.array([[3.0, 5.0, 7.0], [11.0, 13.0, 17.0]]))
    ds[N["var_dxc"]] = ((N["dim_xc"],), np.array([1.0, 2.0, 4.0]))
    ds[N["var_dyc"]] = ((N["dim_yc"],), np.array([2.0, 8.0]))
    ds["thickness"] = ((N["dim_zc"],), np.array([19.0, 23.0]))
    temp = xr.DataArray(((np.arange(nz * ny * nx) * 7) % 11).astype(float).reshape(nz, ny, nx), dims=[N["dim_zc"], N["dim_yc"], N["dim_xc"]], name=N["var_temp"])
    X, Y, Z = N["ax_X"], N["ax_Y"], N["ax_Z"]
    coords = {X: {"center": N["dim_xc"], "left": N["dim_xg"]}, Y: {"center": N["dim_yc"], "left": N["dim_yg"]}, Z: {"center": N["dim_zc"], "outer": N["dim_zo"]}}
    try:
        with warnings.catch_warnings():
            warnings.simplefilter("ignore")
            g = Grid(ds, coords=coords, periodic=False, boundary="extend", autoparse_metadata=False,
                     metrics={(X, Y): ["cellarea"], (X,): [N["var_dxc"]], (Y,): [N["var_dyc"]], (Z,): ["thickness"]})
        out.append(("construct", ("ok",), None))
    except Exception as e:
        return [("construct", ("raise",), e)]
    calls = [
        ("get-z", lambda: g.get_metric(temp, Z)), ("get-x", lambda: g.get_metric(temp, (X,))), ("get-xy", lambda: g.get_metric(temp, (Y, X))),
        ("get-xyz", lambda: g.get_metric(temp, (X, Y, Z))), ("get-yz", lambda: g.get_metric(temp, [Y, Z])),
        ("integrate-z", lambda: g.integrate(temp, Z)), ("integrate-xy", lambda: g.integrate(temp, [X, Y])), ("average-zx", lambda: g.average(temp, [Z, X])),
        ("cumint-z", lambda: g.cumint(temp, Z, to="outer", boundary="fill")), ("mw-z", lambda: g.interp(temp, Z, metric_weighted=Z)),
    ]
    for lab, fn in calls:
        r, e = outcome(N, fn)
        out.append((lab, r, e))
    return out


def _annotated_ufunc(p, q, bw):
    from typing import Annotated

    from xgcm.grid_ufunc import as_grid_ufunc

    def f(a):
        return a[..., 1:, :-1] - a[..., :-1, 1:]

    f.__annotations__ = {"a": Annotated[np.ndarray, f"{p}:center,{q}:center"], "return": Annotated[np.ndarray, f"{p}:left,{q}:left"]}
    return as_grid_ufunc(boundary_width=bw)(f)


def _annotated_ufunc_1d(q):
    from typing import Annotated

    from xgcm.grid_ufunc import as_grid_ufunc

    def f(a):
        return a[..., 1:] + a[..., :-1]

    f.__annotations__ = {"a": Annotated[np.ndarray, f"{q}:center"], "return": Annotated[np.ndarray, f"{q}:left"]}
    return as_grid_ufunc(boundary_width={q: (1, 0)}, boundary="extend")(f)


def sec_ufunc(nm):
    from xgcm import Grid
    from xgcm.grid_ufunc import apply_as_grid_ufunc, as_grid_ufunc

    N = nm
    ds, temp = base_ds(N)
    X, Y, p, q = N["ax_X"], N["ax_Y"], N["dummy_p"], N["dummy_q"]
    try:
        with warnings.catch_warnings():
            warnings.simplefilter("ignore")
            g = Grid(ds, coords=grid_coords(N), periodic=False, boundary="extend", autoparse_metadata=False)
    except Exception as e:
        return [("construct", ("raise",), e)]
    f = lambda a: a[..., 1:, :-1] - a[..., :-1, 1:]
    sig = f"({p}:center,{q}:center)->({p}:left,{q}:left)"
    bw = {p: (1, 0), q: (0, 1)}
    out = []
    calls = [
        ("apply", lambda: apply_as_grid_ufunc(f, temp, axis=[(X, Y)], grid=g, signature=sig, boundary_width=bw)),
        ("apply-swapped", lambda: apply_as_grid_ufunc(f, temp, axis=[(Y, X)], grid=g, signature=sig, boundary_width=bw, boundary={X: "fill", Y: "extend"}, fill_value={X: 2.0})),
        ("decorated", lambda: as_grid_ufunc(signature=sig, boundary_width=bw)(f)(g, temp, axis=[(X, Y)])),
        ("two-inputs", lambda: apply_as_grid_ufunc(lambda a, b: a + b[..., None, :], temp, temp.isel({N["dim_yc"]: 0}), axis=[(Y, X), (X,)], grid=g,
                                                   signature=f"({p}:center,{q}:center),({q}:center)->({p}:center,{q}:center)")),
        ("equivalent", lambda: g.diff(temp, [X, Y])),
        ("annotated", lambda: _annotated_ufunc(p, q, bw)(g, temp, axis=[(X, Y)])),
        ("annotated-1d", lambda: _annotated_ufunc_1d(q)(g, temp, axis=[(X,)])),
    ]
    for lab, fn in calls:
        r, e = outcome(N, fn)
        out.append((lab, r, e))
    return out


def sec_transform(nm):
    from xgcm import Grid

    N = nm
    nz = 3
    Z, zc, zo, tm = N["ax_Z"], N["dim_zc"], N["dim_zo"], N["dim_time"]
    ds = xr.Dataset(coords={zc: (zc, np.arange(nz) + 0.5), zo: (zo, np.arange(nz + 1.0)), tm: (tm, [0.0, 1.0])})
    try:
        with warnings.catch_warnings():
            warnings.simplefilter("ignore")
            g = Grid(ds, coords={Z: {"center": zc, "outer": zo}}, periodic=False, autoparse_metadata=False)
    except Exception as e:
        return [("construct", ("raise",), e)]
    da = xr.DataArray(np.array([[1.0, 2.0, 4.0], [10.0, 20.0, 40.0]]), dims=[tm, zc], name=N["var_temp"])
    td = xr.DataArray(np.array([[0.0, 1.0, 2.0], [5.0, 3.0, 1.0]]), dims=[tm, zc], name=N["td_name"])
    tdo = xr.DataArray(np.array([[0.0, 1.0, 2.0, 3.0], [6.0, 4.0, 2.0, 0.0]]), dims=[tm, zo], name=N["td_name"])
    lev = np.array([0.5, 1.5, 4.0])
    levda = xr.DataArray(lev, dims=[N["target_dim"]])
    lev2 = xr.DataArray(np.stack([lev, lev[::-1]]), dims=[tm, N["target_dim"]])
    bins = np.array([0.0, 1.0, 2.5, 6.0])
    binsda = xr.DataArray(bins, dims=[N["target_dim"]])
    out = []
    calls = [
        ("linear-nd", lambda: g.transform(da, Z, lev, target_data=td)), ("linear-da", lambda: g.transform(da, Z, levda, target_data=td, mask_edges=False)),
        ("linear-ndim", lambda: g.transform(da, Z, lev2, target_data=td, target_dim=N["target_dim"])),
        ("log", lambda: g.transform(da, Z, levda, target_data=td + 1, method="log")),
        ("cons-nd", lambda: g.transform(da, Z, bins, target_data=tdo, method="conservative")),
        ("cons-da", lambda: g.transform(da, Z, binsda, target_data=tdo, method="conservative", target_dim=N["target_dim"])),
        ("cons-center", lambda: g.transform(da, Z, binsda, target_data=td, method="conservative")),
        ("suffix", lambda: g.transform(da, Z, levda, target_data=td, suffix="_z")),
    ]
    for lab, fn in calls:
        r, e = outcome(N, fn)
        out.append((lab, r, e))
    return out


def sec_comodo(nm):
    from xgcm import Grid

    N = nm
    ds, temp = base_ds(N)
    X, Y = N["ax_X"], N["ax_Y"]
    ds[N["dim_xc"]].attrs["axis"] = X
    ds[N["dim_xg"]].attrs.update(axis=X, c_grid_axis_shift=-0.5)
    ds[N["dim_yc"]].attrs["axis"] = Y
    ds[N["dim_yg"]].attrs.update(axis=Y, c_grid_axis_shift=-0.5)
    out = []
    try:
        with warnings.catch_warnings():
            warnings.simplefilter("ignore")
            g = Grid(ds, periodic=False)
        b = back(N)
        out.append(("construct", ("ok", tuple(sorted((b(a), tuple(sorted((p, b(d)) for p, d in g.axes[a].coords.items()))) for a in g.axes))), None))
    except Exception as e:
        return [("construct", ("raise",), e)]
    for lab, fn in [("diff", lambda: g.diff(temp, X, boundary="extend")), ("interp2", lambda: g.interp(temp, [Y, X], boundary="fill"))]:
        r, e = outcome(N, fn)
        out.append((lab, r, e))
    return out


def sec_sgrid(nm):
    from xgcm import Grid

    N = nm
    xc, xn, yc, yn = N["sg_xcell"], N["sg_xnode"], N["sg_ycell"], N["sg_ynode"]
    n = 3
    attrs = {"cf_role": "grid_topology", "topology_dimension": 2, "node_dimensions": f"{xn} {yn}",
             "face_dimensions": f"{xc}: {xn} (padding: both) {yc}: {yn} (padding: low)"}
    ds = xr.Dataset({"grid": ((), np.int32(0), attrs), xc: ((xc,), np.arange(n) + 0.5), xn: ((xn,), np.arange(1, n) * 1.0),
                     yc: ((yc,), np.arange(n) + 0.5), yn: ((yn,), np.arange(1, n + 1) * 1.0)}, attrs={"Conventions": "SGRID-0.3"})
    out = []
    try:
        with warnings.catch_warnings():
            warnings.simplefilter("ignore")
            g = Grid(ds, periodic=False)
        b = back(N)
        out.append(("construct", ("ok", tuple(sorted((a, tuple(sorted((p, b(d)) for p, d in g.axes[a].coords.items()))) for a in g.axes))), None))
    except Exception as e:
        return [("construct", ("raise",), e)]
    da = xr.DataArray(np.arange(n * n, dtype=float).reshape(n, n) ** 2, dims=[yc, xc], name="vvel")
    for lab, fn in [("interp-x", lambda: g.interp(da, "X", boundary="extend")), ("diff-y", lambda: g.diff(da, "Y", boundary="fill"))]:
        r, e = outcome(N, fn)
        out.append((lab, r, e))
    return out


def sec_faces(nm):
    from xgcm import Grid
    from xgcm.padding import pad

    N = nm
    X, Y, fd, tm = N["ax_X"], N["ax_Y"], N["dim_face"], N["dim_time"]
    xc, xg, yc, yg = N["dim_xc"], N["dim_xg"], N["dim_yc"], N["dim_yg"]
    n = 2
    ds = xr.Dataset(coords={xc: (xc, np.arange(n)), xg: (xg, np.arange(n) - 0.5), yc: (yc, np.arange(n)), yg: (yg, np.arange(n) - 0.5), fd: (fd, [0, 1])})
    # the names inside the link table are equal to, but not the same objects as, the axis names of the Grid (a table read
    # from a file or built by string operations)
    cp = lambda s_: "".join(list(s_))
    fc = {fd: {0: {cp(X): (None, (1, cp(Y), False)), cp(Y): ((1, cp(Y), False), None)}, 1: {cp(Y): ((0, cp(X), False), (0, cp(Y), False))}}}
    try:
        with warnings.catch_warnings():
            warnings.simplefilter("ignore")
            g = Grid(ds, coords={X: {"center": xc, "left": xg}, Y: {"center": yc, "left": yg}}, face_connections=fc, periodic=False,
                     boundary="fill", fill_value=0.0, autoparse_metadata=False)
    except Exception as e:
        return [("construct", ("raise",), e)]
    S_ = np.arange(2 * n * n, dtype=float).reshape(2, n, n) + 1
    s = xr.DataArray(S_, dims=[fd, yc, xc], name="sfield")
    u = xr.DataArray(S_ * 10 + 0.25, dims=[fd, yc, xg], name="uvel")
    v = xr.DataArray(-(S_ * 100 + 0.5), dims=[fd, yg, xc], name="vvel")
    out = [("construct", ("ok",), None)]
    calls = [
        ("diff-s", lambda: g.diff(s, X, boundary="extend")), ("interp-s", lambda: g.interp(s, [X, Y])),
        ("vec-x", lambda: g.diff({X: u}, X, other_component={Y: v})), ("vec-y", lambda: g.interp({Y: v}, Y, other_component={X: u})),
        ("pad2", lambda: pad(s, g, {X: (1, 1), Y: (1, 1)}, boundary={X: "extend", Y: "fill"}, fill_value={Y: 4.0})),
        ("2dvec", lambda: g.diff_2d_vector({X: u, Y: v})),
        # a component padded along the *other* axis as well (perpendicular component across the links)
        ("pad-vec-both", lambda: pad({X: u}, g, {X: (1, 1), Y: (1, 1)}, boundary="fill", other_component={Y: v})),
        ("pad-vec-perp", lambda: pad({Y: v}, g, {X: (1, 1)}, boundary="extend", other_component={X: u})),
        ("vec-multi", lambda: g.interp({X: u}, [X, Y], to={X: "center", Y: "left"}, other_component={Y: v})),
    ]
    for lab, fn in calls:
        r, e = outcome(N, fn)
        out.append((lab, r, e))
    return out


SEC_FN = dict(ops=sec_ops, metrics=sec_metrics, metrics3=sec_metrics3, ufunc=sec_ufunc, transform=sec_transform, comodo=sec_comodo, sgrid=sec_sgrid, faces=sec_faces)
_CANON = {}


def canon_section(sec):
    if sec not in _CANON:
        _CANON[sec] = SEC_FN[sec](dict(CANON))
    return _CANON[sec]


POSWORDS = ("center", "left", "right", "inner", "outer")


def nontrivial(assign):
    for nme in assign.values():
        if any(nme.lower() in w or w in nme.lower() for w in POSWORDS):
            return True
        if any(t in nme for t in ("temp_", "dummy", "remapped", "dim_0", "TRANSFORMED")):
            return True
    vals = list(assign.values()) + list(CANON.values())
    return any(a != b and (a in b or b in a) for a in assign.values() for b in vals)


def run_assign(rec, assign, sections=None):
    nm = names_for(assign)
    # injective within a namespace: dummy names only have to differ from each other
    others = [v for k, v in nm.items() if k not in DUMMIES]
    if len(set(others)) != len(others) or nm["dummy_p"] == nm["dummy_q"]:
        return
    if any(v in POSWORDS for v in assign.values()):
        return
    secs = sorted(set(s for r in assign for s in ROLE_SECTIONS[r])) if sections is None else sections
    for sec in secs:
        if any((v, sec) in XARRAY_CANNOT for k, v in assign.items() if k.startswith("dim_")):
            rec.counters["skipped:name xarray itself cannot handle on this path"] += 1
            continue
        # every role of the assignment must be used by the section, otherwise it was covered by a smaller assignment
        if sections is None and not all(sec in ROLE_SECTIONS[r] for r in assign):
            continue
        case = dict(section=sec, assign=assign)
        ref = canon_section(sec)
        got = SEC_FN[sec](nm)
        rec.case((sec, tuple(sorted(assign.items()))), nontrivial(assign), sample=case, calls=len(ref))
        roles = "+".join(sorted(assign))
        if len(got) != len(ref):
            g0 = got[-1]
            rec.violation("differential", f"{sec}:{g0[0]}:raises-under-renaming:{roles}", case, "same as canonical",
                          f"{type(g0[2]).__name__}: {g0[2]}"[:200] if g0[2] is not None else "shorter battery")
            continue
        for (lab, r0, e0), (lab1, r1, e1) in zip(ref, got):
            if r0 != r1:
                if r1 == ("raise",):
                    cls = f"{sec}:{lab}:raises-under-renaming:{roles}"
                    obs = f"{type(e1).__name__}: {e1}"[:200]
                elif r0 == ("raise",):
                    cls, obs = f"{sec}:{lab}:accepted-only-under-renaming:{roles}", "returned"
                else:
                    what = "values"
                    if r0[0] == "DA" and r1[0] == "DA":
                        what = "name" if r0[1] != r1[1] else "dims" if r0[2] != r1[2] else "values" if r0[4] != r1[4] else "coords"
                    cls, obs = f"{sec}:{lab}:{what}-differ-under-renaming:{roles}", _short(r1)
                rec.violation("differential", cls, dict(case, call=lab), _short(r0), obs)
                break


def _short(c):
    if isinstance(c, tuple) and c and c[0] == "DA":
        return ["DA", c[1], list(c[2]), np.frombuffer(c[4]).tolist()[:16], list(c[5])]
    return repr(c)[:300]


RELATED_PAIRS = [
    ("ax_X", "ax_Y"), ("ax_X", "dim_xc"), ("ax_X", "dim_xg"), ("ax_Y", "dim_yc"), ("dim_xc", "dim_xg"), ("dim_xc", "dim_xo"), ("dim_xc", "dim_yc"),
    ("dim_xg", "dim_yg"), ("dim_xc", "dim_time"), ("dim_xc", "var_temp"), ("ax_X", "var_temp"), ("var_dxc", "var_dxg"), ("var_dxc", "dim_xc"),
    ("var_temp", "var_dxc"), ("coord_depth", "dim_xc"), ("coord_depth", "var_temp"), ("dummy_p", "dummy_q"), ("dummy_p", "ax_X"), ("dummy_q", "ax_X"),
    ("dummy_p", "dim_xc"), ("ax_Z", "dim_zc"), ("dim_zc", "dim_zo"), ("td_name", "target_dim"), ("td_name", "var_temp"), ("target_dim", "dim_zc"),
    ("target_dim", "dim_time"), ("td_name", "dim_zc"), ("var_temp", "dim_zc"), ("ax_Z", "td_name"), ("dim_time", "dim_zc"),
    ("sg_xcell", "sg_xnode"), ("sg_ycell", "sg_ynode"), ("sg_xcell", "sg_ycell"), ("sg_xnode", "sg_ynode"), ("sg_xcell", "sg_ynode"), ("sg_xnode", "sg_ycell"),
    ("dim_face", "ax_X"), ("dim_face", "dim_xc"), ("dim_face", "dim_time"), ("ax_Y", "dim_yg"), ("ax_X", "dim_time"), ("dim_yc", "dim_yg"),
    ("var_dyc", "dim_yc"), ("var_dyc", "ax_Y"), ("dim_xo", "dim_xg"), ("ax_Y", "dim_xc"),
]


def assignments(tier):
    out = []
    for role in CANON:
        for nme in POOL:
            out.append({role: nme})
    if tier == "quick":
        pairs = RELATED_PAIRS
    else:
        pairs = [(a, b) for a, b in itertools.combinations(CANON, 2) if set(ROLE_SECTIONS[a]) & set(ROLE_SECTIONS[b])]
    for a, b in pairs:
        for n1, n2 in itertools.permutations(PAIRPOOL, 2):
            out.append({a: n1, b: n2})
    # dummy names spelled like the real axes (same and crosswise) and like dimensions
    for n1, n2 in (("X", "Y"), ("Y", "X"), ("X", "q"), ("p", "X"), ("Y", "q"), ("xc", "yc"), ("Z", "X")):
        out.append({"dummy_p": n1, "dummy_q": n2})
    # three axis names of which one is the other two joined (in either order), or contains them
    for n1, n2, n3 in (("a", "b", "ab"), ("b", "a", "ab"), ("lat", "lon", "latlon"), ("x", "y", "yx"), ("ab", "a", "b"), ("k", "kk", "kkk"), ("X", "XY", "Y")):
        out.append({"ax_X": n1, "ax_Y": n2, "ax_Z": n3})
    return out


def shards(tier, seed):
    n = len(assignments(tier))
    return [(lo, min(lo + 40, n)) for lo in range(0, n, 40)]


def run_shard(shard, tier, seed, rec):
    asg = assignments(tier)
    for a in asg[shard[0]: shard[1]]:
        run_assign(rec, a)


def replay_case(case, seed, rec):
    run_assign(rec, dict(case["assign"]), sections=[case["section"]])
