"""C07  Conservative transform neither creates nor destroys the transformed quantity.

Kernel level: every target_data profile on a small integer lattice x every strictly monotonic
bin set of the lattice (both directions), profiles stacked as columns of one call (column
independence), data = basis + generic rows (exact weight matrix).  Oracle: exact rational overlap
weights.  API level: Grid.transform(method='conservative') with target_data on bounds and on
centres, extra dimensions in both orders and every chunking of them.
numba is absent in the sandbox: the unmodified kernel bodies run through xmc/numba_stub.
"""
import itertools
import warnings
from fractions import Fraction as F

import numpy as np
import xarray as xr

from ..core import compositions, exc_sig
from ..ref import transform as R

PID = "C07"
LEVEL = "exploration"
TECHNIQUE = "bounded exhaustive enumeration of all lattice profiles x all monotonic bin sets (kernel, columns stacked) and of API spellings, against exact rational overlap weights"
RULE = (
    "case = (n, profile, bin set) at kernel level, (profiles of 2 columns, bins, target_data position, layout, chunking, target spelling) at API level; "
    "non-trivial = some cell overlaps >= 2 bins or lies on a bin edge"
)
SPACE = {
    "quick": "kernel: n in {1,2,3}, all 5^(n+1) profiles on {0..4}, all 52 strictly monotonic bin sets (26 subsets x 2 directions), float64 and float32, and the same lattice squeezed next to a large offset (1000 + 0.001 v, -5 + 1e-6 v); API: 66 column pairs x 6 bin sets x {bounds, centres} x 2 layouts x chunkings of the extra dim x {ndarray, DataArray} target, in float64, in float32, and mixed (float32 data, float64 target_data and bins scaled by 0.7 so that edge values are not float32-representable)",
    "thorough": "kernel n = 4 as well (3125 profiles), lattice {0..5} for n <= 2",
}
BOUNDS = {"quick": {"n": [1, 2, 3]}, "thorough": {"n": [1, 2, 3, 4]}}
ASSUMPTIONS = [
    "the numba stand-in executes the unmodified kernel source as plain Python; numba's nopython lowering of the same source is not covered",
    "the transform is linear in the data: basis rows give the exact weight matrix, a generic row checks linearity",
    "a homogeneous cell (equal bounds) lying exactly on an interior bin edge may go to either adjacent bin (any split summing to 1)",
    "NaN target_data is outside the alphabet",
]
LAT = (0, 1, 2, 3, 4)


def binsets(lat):
    out = []
    for k in range(2, len(lat) + 1):
        for sub in itertools.combinations(lat, k):
            out.append(list(sub))
            out.append(list(sub)[::-1])
    return out


def kernel_shared_profile(rec, n, bins, seed):
    """one profile shared by several data columns: theta is passed as a 1-D array next to an N-D phi"""
    from xgcm.transform import interp_1d_conservative

    profiles = list(itertools.product(LAT, repeat=n + 1))[:: 3 if n > 1 else 1]
    phi = np.vstack([np.eye(n), (np.arange(n) * 2.0 + 1 + seed % 3)[None, :]])
    phi3 = np.stack([phi, phi * 2.0 + 1.0])  # two extra dimensions
    m = len(bins) - 1
    for th in profiles:
        case = dict(level="kernel-shared", n=n, bins=bins, profile=list(th))
        W, amb = R.overlap_weights(list(th), bins)
        rec.case(("ks", n, tuple(bins), th), True, sample=case if th == profiles[1 % len(profiles)] else None, calls=1)
        try:
            out = interp_1d_conservative(phi3, np.array(th, dtype=float), np.array(bins, dtype=float))
        except Exception as e:
            rec.violation("kernel", "shared-profile-raise:" + exc_sig(e), case, "array", f"{type(e).__name__}: {e}"[:200])
            return
        if out.shape != (2, n + 1, m):
            rec.violation("kernel", "shared-profile-shape", case, [2, n + 1, m], list(out.shape))
            return
        got = out[0, :n, :].T
        cls = judge(got, W, amb, n, m)
        if cls is None and not amb:
            want1 = np.array([[float(W[j][i]) for i in range(n)] for j in range(m)]) @ (phi3[1].T)
            if not np.allclose(out[1].T, want1, atol=1e-9):
                cls = "weights"
        if cls:
            rec.violation("kernel", "shared-profile:" + cls + (":decreasing-bins" if bins[1] < bins[0] else ""), case, [[float(x) for x in row] for row in W], got)
            if not cls.startswith("homogeneous"):
                return


def judge(got, W, amb, n, m, tol=1e-12):
    """got[j][i] observed weights.  returns None if ok else class string"""
    for i in range(n):
        col = [got[j][i] for j in range(m)]
        if i in amb:
            s = sum(col)
            ok = abs(s - 1) < tol and all((abs(c) < tol) or (j in amb[i]) for j, c in enumerate(col)) and all(c > -tol for c in col)
            if not ok:
                if all(abs(col[j] - (1.0 if j in amb[i] else 0.0)) < tol for j in range(m)):
                    return "homogeneous-cell-on-interior-bin-edge-counted-twice"
                return "homogeneous-cell-on-interior-bin-edge"
        else:
            if not all(abs(col[j] - float(W[j][i])) < tol for j in range(m)):
                return "weights"
    return None


AFFINE = ((1.0, 0.0), (0.001, 1000.0), (1e-6, -5.0))  # target_data = offset + scale * lattice value


def kernel_case(rec, n, bins, dtype, seed, only=None, aff=0):
    """aff > 0: the lattice is squeezed next to a large offset (weak stratification on a large
    background value): neighbouring values differ only in the 6th-9th significant digit"""
    from xgcm.transform import interp_1d_conservative

    scale, offset = AFFINE[aff]
    lat_bins = bins
    bins = [offset + scale * b for b in bins] if aff else bins
    profiles = list(itertools.product(LAT, repeat=n + 1))
    if only is not None:
        profiles = [tuple(only)]
    P = len(profiles)
    phi = np.vstack([np.eye(n), (np.arange(n) * 2.0 + 1 + seed % 3)[None, :]]).astype(dtype)
    theta = np.array(profiles, dtype=dtype)[:, None, :]  # (P,1,n+1)
    if aff:
        theta = offset + scale * theta
    phi_b = np.broadcast_to(phi[None], (P,) + phi.shape)
    theta_b = np.broadcast_to(theta, (P, phi.shape[0], n + 1))
    m = len(bins) - 1
    try:
        out = interp_1d_conservative(phi_b, theta_b, np.array(bins, dtype=dtype))
    except Exception as e:
        rec.case(("k", n, tuple(bins), str(dtype)), True, calls=1)
        rec.violation("kernel", "raise:" + exc_sig(e), dict(level="kernel", n=n, bins=lat_bins, dtype=str(np.dtype(dtype)), profile=list(profiles[0]), aff=aff),
                      "array", f"{type(e).__name__}: {e}"[:200])
        return
    tol0 = 1e-12 if dtype == np.float64 else 1e-6
    if only is None and out.shape == (P, n + 1, len(bins) - 1):
        # columns are independent: the same columns handed over in smaller blocks (grouped by the largest / the smallest
        # target_data value of the column, so that what else sits in the block differs) give bit for bit the same answer
        for gname, keyf in (("max", max), ("min", min)):
            groups = {}
            for p, th in enumerate(profiles):
                groups.setdefault(keyf(th), []).append(p)
            for gk, idxs in sorted(groups.items()):
                sub = interp_1d_conservative(np.ascontiguousarray(phi_b[idxs]), np.ascontiguousarray(theta_b[idxs]), np.array(bins, dtype=dtype))
                rec.calls += 1
                if not np.array_equal(sub, out[idxs], equal_nan=True):
                    bad = [idxs[q] for q in range(len(idxs)) if not np.array_equal(sub[q], out[idxs[q]], equal_nan=True)]
                    rec.case(("k", n, tuple(lat_bins), str(dtype)), True, calls=0)
                    rec.violation("kernel", "column-depends-on-the-other-columns-of-its-block", dict(level="kernel", n=n, bins=lat_bins, dtype=str(np.dtype(dtype)), profile=list(profiles[bad[0]]), aff=aff, grouped_by=gname),
                                  out[bad[0]], sub[idxs.index(bad[0])])
                    return
    bins = lat_bins
    for p, th in enumerate(profiles):
        case = dict(level="kernel", n=n, bins=lat_bins, dtype=str(np.dtype(dtype)), profile=list(th), aff=aff)
        # the weights are those of the lattice problem (an affine map of target_data and bins changes no overlap fraction)
        W, amb = R.overlap_weights(list(th), lat_bins)
        tol = tol0 if not aff else 1e-6
        nontriv = any(sum(1 for j in range(m) if W[j][i] > 0) >= 2 for i in range(n)) or any(t in bins for t in th)
        rec.case(("k", n, tuple(bins), th, str(dtype), aff), nontriv, sample=case if p == 7 else None, calls=1 if p == 0 else 0)
        if out.shape != (P, n + 1, m):
            rec.violation("kernel", "shape", case, [P, n + 1, m], list(out.shape))
            return
        got = out[p, :n, :].T  # got[j, i]
        cls = judge(got, W, amb, n, m, tol)
        if cls is None:
            gen = out[p, n, :]
            if not np.allclose(gen, got @ phi[n].astype(float), rtol=1e-5 if dtype == np.float32 else 1e-12, atol=tol):
                cls = "not-linear-in-data"
        if cls is None and R.within_span(th, bins) and not amb:
            # conservation clause, stated on its own
            sums = got.sum(axis=0)
            if not np.allclose(sums, 1.0, atol=tol * 10):
                cls = "not-conserved"
            if (got < -tol).any():
                cls = "negative-weight"
        if cls:
            inc = bins[1] > bins[0]
            rec.violation("kernel", cls + (":decreasing-bins" if not inc and not cls.startswith("homogeneous") else ""), case,
                          [[float(x) for x in row] for row in W], got)
            if not cls.startswith("homogeneous"):
                return


# ------------------------------------------------------------------ API level
API_PROFILES = [
    (0, 1, 2, 3), (3, 2, 1, 0), (0, 2, 1, 3), (1, 1, 1, 1), (0, 0, 2, 4), (4, 1, 1, 0),
    (0, 4, 0, 4), (2, 3, 3, 1), (0, 1, 3, 4), (4, 4, 2, 0), (1, 2, 2, 3), (3, 0, 4, 1),
]
API_BINS = [[0, 1, 2, 3, 4], [4, 3, 2, 1, 0], [0, 2, 4], [4, 2, 0], [0, 1.5, 4], [-1, 0.5, 2.5, 5]]


_API_GRID = {}


def api_case(rec, pa, pb, bi, where, layout, chunk, tkind, seed, only=False, prec="f8"):
    """prec: 'f8' all float64 on the integer lattice; 'f4' all float32; 'mixed' float32 data with
    float64 target_data and bins scaled by 0.7 (values on bin edges that float32 cannot represent, some rounding inward)"""
    from xgcm import Grid

    nz = 3
    case = dict(level="api", pa=pa, pb=pb, bi=bi, where=where, layout=layout, chunk=chunk, tkind=tkind, prec=prec)
    scale = 0.7 if prec == "mixed" else 1.0
    g = _API_GRID.get("g")
    if g is None:
        # one Grid object serves every API case of a shard: whatever an earlier transform left on it
        # must not influence a later one
        ds = xr.Dataset(coords={"zc": ("zc", np.arange(nz) + 0.5), "zo": ("zo", np.arange(nz + 1.0)), "x": ("x", [0, 1])})
        with warnings.catch_warnings():
            warnings.simplefilter("ignore")
            g = _API_GRID["g"] = Grid(ds, coords={"Z": {"center": "zc", "outer": "zo"}}, periodic=False, autoparse_metadata=False)
    bins = [float(np.float64(b) * scale) for b in API_BINS[bi]]
    profs = [tuple(float(np.float64(v) * scale) for v in API_PROFILES[pa]), tuple(float(np.float64(v) * scale) for v in API_PROFILES[pb])]
    phi = np.array([[1.0, 2.0, 4.0], [3.0 + seed % 2, -1.0, 5.0]])
    if prec == "i8":
        phi = np.array([[1.0, 2.0, 4.0], [3.0 + seed % 2, 7.0, 5.0]])
    if prec == "nan":
        # a missing data value: every bin its cell overlaps is missing too (and so is the column total), the other bins
        # of the column and the other column are unaffected
        phi = np.array([[1.0, np.nan, 4.0], [3.0 + seed % 2, -1.0, 5.0]])
    da = xr.DataArray(phi.astype(np.float32 if prec in ("f4", "mixed") else np.int64 if prec == "i8" else np.float64), dims=["x", "zc"], name="heat")
    if prec in ("shared", "tdnone"):
        profs = [profs[0], profs[0]]
    if prec == "tdnone":
        if where != "outer":
            return
        # target_data omitted: the axis' own coordinate on the cell bounds is the target data
        ds_n = xr.Dataset(coords={"zc": ("zc", np.arange(nz) + 0.5), "zo": ("zo", np.array(profs[0], dtype=float)), "x": ("x", [0, 1])})
        with warnings.catch_warnings():
            warnings.simplefilter("ignore")
            g = Grid(ds_n, coords={"Z": {"center": "zc", "outer": "zo"}}, periodic=False, autoparse_metadata=False)
    if prec == "metrics":
        # a Grid that knows (uneven) cell thicknesses along the axis: the conservative transform is defined by the
        # target_data values alone, metrics play no role
        gm = _API_GRID.get("gm")
        if gm is None:
            ds_m = xr.Dataset(coords={"zc": ("zc", np.arange(nz) + 0.5), "zo": ("zo", np.arange(nz + 1.0)), "x": ("x", [0, 1])})
            ds_m["dz_c"] = ("zc", [1.0, 2.0, 4.0])
            ds_m["dz_o"] = ("zo", [0.5, 1.5, 3.0, 2.0])
            with warnings.catch_warnings():
                warnings.simplefilter("ignore")
                gm = _API_GRID["gm"] = Grid(ds_m, coords={"Z": {"center": "zc", "outer": "zo"}}, periodic=False, autoparse_metadata=False,
                                            metrics={("Z",): ["dz_c", "dz_o"]})
        g = gm
    tdt = np.float32 if prec == "f4" else np.float64
    if where == "outer":
        td = xr.DataArray(np.array(profs, dtype=tdt), dims=["x", "zo"], name="dens")
        theta = [list(map(F, p)) for p in profs]
    else:
        if prec == "mixed":
            return  # halving scaled values is not exact; the centre path is covered on the lattice
        cen = [p[:nz] for p in profs]
        td = xr.DataArray(np.array(cen, dtype=tdt), dims=["x", "zc"], name="dens")
        theta = [[F(c[0])] + [(F(c[k]) + F(c[k + 1])) / 2 for k in range(nz - 1)] + [F(c[-1])] for c in cen]
    if prec == "shared":
        td = td.isel(x=0, drop=True)  # a single profile without the extra dimension of the data
    if layout == "zx":
        da, td = da.transpose("zc", "x"), td.transpose(*reversed(td.dims))
    if chunk:
        da, td = da.chunk({"x": tuple(chunk)}), (td.chunk({"x": tuple(chunk)}) if "x" in td.dims else td.chunk())
    bdt = np.float32 if prec == "f4" else np.float64
    target = np.array(bins, dtype=bdt) if tkind == "nd" else xr.DataArray(np.array(bins, dtype=bdt), dims=["rho"], name="rho")
    newdim = ("zo" if prec == "tdnone" else "dens") if tkind == "nd" else "rho"
    Ws = [R.overlap_weights(t, bins) for t in theta]
    nontriv = True
    rec.case(("api", pa, pb, bi, where, layout, tuple(chunk or ()), tkind, prec), nontriv, sample=case)
    tol = 1e-9 if prec in ("f8", "i8", "shared", "tdnone", "metrics", "nan") else 1e-5
    try:
        with warnings.catch_warnings():
            warnings.simplefilter("ignore")
            # bypass_checks is documented for the linear / log methods only; given with the conservative method (every third
            # case) it changes nothing
            bkw = dict(bypass_checks=True) if (pa + pb + bi) % 3 == 0 else {}
            if prec == "tdnone":
                r = g.transform(da, "Z", target, method="conservative", **bkw)
            else:
                r = g.transform(da, "Z", target, target_data=td, method="conservative", **bkw)
            v = r.compute() if chunk else r
    except Exception as e:
        rec.violation("api", "raise:" + exc_sig(e), case, "array", f"{type(e).__name__}: {e}"[:200])
        return
    if set(v.dims) != {"x", newdim}:
        rec.violation("api", "dims", case, ["x", newdim], list(v.dims))
        return
    m = len(bins) - 1
    got = v.transpose("x", newdim).values
    if got.shape != (2, m):
        rec.violation("api", "shape", case, [2, m], list(got.shape))
        return
    for c in range(2):
        W, amb = Ws[c]
        if prec == "nan" and c == 0:
            if amb:
                continue  # a homogeneous cell on a bin edge may go to either bin: not judged together with missing data
            for j in range(m):
                w_nan = float(W[j][1])
                e_j = sum(float(W[j][i]) * phi[c, i] for i in (0, 2))
                if w_nan > 0 and not np.isnan(got[c, j]):
                    rec.violation("api", "missing-data-value-turned-into-a-number", dict(case, column=c, bin=j), "nan", float(got[c, j]))
                    return
                if w_nan == 0 and not (np.isnan(got[c, j]) or abs(got[c, j] - e_j) < tol):
                    rec.violation("api", "values:next-to-missing-data", dict(case, column=c, bin=j), e_j, float(got[c, j]))
                    return
            continue
        exp = np.array([sum(float(W[j][i]) * phi[c, i] for i in range(nz) if i not in amb) for j in range(m)])
        resid = got[c] - exp
        if amb:
            # the ambiguous cells may go to either adjacent bin: residual must be explained by them
            want = sum(phi[c, i] for i in amb)
            support = set(j for i in amb for j in amb[i])
            ok = abs(resid.sum() - want) < tol and all(abs(resid[j]) < tol for j in range(m) if j not in support)
            if not ok:
                twice = np.array([sum(phi[c, i] for i in amb if j in amb[i]) for j in range(m)])
                cls = "homogeneous-cell-on-interior-bin-edge-counted-twice" if np.allclose(resid, twice, atol=tol) else "homogeneous-cell-on-interior-bin-edge"
                rec.violation("api", cls, dict(case, column=c), exp, got[c])
                return
        elif not np.allclose(resid, 0, atol=tol):
            other = 1 - c
            Wo, ambo = Ws[other]
            expo = np.array([sum(float(Wo[j][i]) * phi[c, i] for i in range(nz)) for j in range(m)])
            cls = "values"
            if bins[1] < bins[0]:
                cls += ":decreasing-bins"
            if prec not in ("f8", "shared"):
                cls += ":" + prec
            rec.violation("api", cls, dict(case, column=c), exp, got[c])
            return
        if R.within_span([float(t) for t in theta[c]], bins) and abs(got[c].sum() - phi[c].sum()) > tol and not amb:
            rec.violation("api", "not-conserved", dict(case, column=c), float(phi[c].sum()), float(got[c].sum()))
            return
    centers = (np.array(bins[1:], dtype=float) + np.array(bins[:-1], dtype=float)) / 2
    if newdim not in v.coords or not np.allclose(v.coords[newdim].values, centers, rtol=1e-6):
        rec.violation("api", "bin-centre-coordinate", case, centers, v.coords[newdim].values if newdim in v.coords else None)


def api_cases(tier):
    out = []
    pairs = list(itertools.combinations(range(len(API_PROFILES)), 2))
    k = 0
    for (pa, pb) in pairs:
        for bi in range(len(API_BINS)):
            for where in ("outer", "center"):
                k += 1
                variants = [("xz", None, "nd"), ("zx", None, "da"), ("xz", [1, 1], "da"), ("zx", [2], "nd")]
                if tier == "quick":
                    variants = [variants[k % 4], variants[(k + 1) % 4]]
                for layout, chunk, tkind in variants:
                    out.append((pa, pb, bi, where, layout, chunk, tkind, "f8"))
                if where == "outer":
                    layout, chunk, tkind = variants[0]
                    out.append((pa, pb, bi, where, layout, chunk, tkind, "mixed"))
                    if k % 3 == 0:
                        out.append((pa, pb, bi, where, layout, chunk, tkind, "f4"))
                    out.append((pa, pb, bi, where, layout, chunk, tkind, "i8"))
                if pb == pa + 1:
                    layout, chunk, tkind = variants[-1]
                    out.append((pa, pb, bi, where, layout, chunk, tkind, "shared"))
                    if where == "outer":
                        out.append((pa, pb, bi, where, variants[0][0], None, variants[0][2], "tdnone"))
                layout, chunk, tkind = variants[0]
                out.append((pa, pb, bi, where, layout, chunk, tkind, "metrics"))
                if where == "outer":
                    out.append((pa, pb, bi, where, layout, chunk, tkind, "nan"))
    return out


def shards(tier, seed):
    bs = binsets(LAT)
    sh = []
    for n in BOUNDS[tier]["n"]:
        step = 4 if n < 4 else 1
        for i in range(0, len(bs), step):
            sh.append(("k", n, i, min(i + step, len(bs))))
    ac = api_cases(tier)
    sh += [("api", i, min(i + 60, len(ac))) for i in range(0, len(ac), 60)]
    return sh


def run_shard(shard, tier, seed, rec):
    if shard[0] == "k":
        _, n, lo, hi = shard
        bs = binsets(LAT)
        for bi in range(lo, hi):
            kernel_case(rec, n, bs[bi], np.float64, seed)
            if bi % 4 == 0:
                kernel_case(rec, n, bs[bi], np.float32, seed)
            if bi % 2 == 0:
                kernel_case(rec, n, bs[bi], np.float64, seed, aff=1 + (bi // 2) % 2)
            if n <= 2 or bi % 3 == 0:
                kernel_shared_profile(rec, n, bs[bi], seed)
    else:
        ac = api_cases(tier)
        _API_GRID.clear()
        for c in ac[shard[1]: shard[2]]:
            api_case(rec, *c[:7], seed, prec=c[7])


def replay_case(case, seed, rec):
    if case["level"] == "kernel":
        dt = np.float32 if "32" in case.get("dtype", "") else np.float64
        # the profiles are stacked as columns of one call (that is part of the case: column
        # independence), so the whole batch is re-run and the one profile picked out
        rec.MAXVIOL = 10 ** 6
        kernel_case(rec, case["n"], case["bins"], dt, seed, aff=case.get("aff", 0))
        rec.viol = [v for v in rec.viol if v["case"].get("profile") == case["profile"]]
    elif case["level"] == "kernel-shared":
        rec.MAXVIOL = 10 ** 6
        kernel_shared_profile(rec, case["n"], case["bins"], seed)
        rec.viol = [v for v in rec.viol if v["case"].get("profile") == case["profile"]]
    else:
        _API_GRID.clear()
        api_case(rec, case["pa"], case["pb"], case["bi"], case["where"], case["layout"], case["chunk"], case["tkind"], seed, prec=case.get("prec", "f8"))
