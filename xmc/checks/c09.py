"""C09  cumsum is the running sum at the shifted position and inverts diff.

Same enumeration as C01 for the 8 valid shifts of cumsum, plus the algebraic laws of the
statement (diff o cumsum = id, axis-order independence, cumint = cumsum(data*metric),
last(cumint) = integrate), each checked on every configuration in its scope.
"""
import itertools
import warnings

import numpy as np
import xarray as xr

from ..core import exc_sig
from ..ref import simple as S
from .c01 import reset  # noqa: F401  (replay hook: the per-call mappings shared between Grids)
from .c01 import (ML, MN, RULES, axis_orders, build_grid, compare, rows,
                  supplies_for, supply_kwargs, arrangements)

PID = "C09"
LEVEL = "exploration"
TECHNIQUE = "bounded exhaustive enumeration of (layout x n x shift x rule x supply x dims x axis order) against a coordinate running-sum model, plus algebraic laws on every configuration"
RULE = (
    "case = (part, layout, n, from, to, rule, fill, supply | law instance); non-trivial = the target has a leading "
    "point before the first input (rule-supplied value) or n >= 3"
)
SPACE = {
    "quick": "(a) 16 layouts x n in {2,3,4,5} x valid shifts x 5 rules x supply routes, to explicit/omitted; (b) 17 dim arrangements x 8 shifts x 2 rules; (c) ordered selections of 2-3 axes x shift combos x 3 rule sets; laws: inverse (layouts with outer), order independence, cumint/integrate on all layouts with a metric",
    "thorough": "n in {2..7}; (c) from every start position",
}
BOUNDS = {"quick": {"n": [2, 3, 4, 5]}, "thorough": {"n": [2, 3, 4, 5, 6, 7]}}
ASSUMPTIONS = [
    "cumsum is linear in data: basis rows extract the operator, a generic row checks linearity",
    "integer-valued float64 data so sums are exact; metric-weighted laws use dyadic metrics (exact) or rtol 1e-12",
]
LEADING = {("center", "left"), ("center", "outer"), ("right", "center"), ("inner", "center")}


AXSPELL = (lambda: "X", lambda: ["X"], lambda: ("X",), lambda: iter(["X"]), lambda: (a for a in ("X",)), lambda: {"X": None}.keys())
# a single axis may be given as str, list, tuple or any other iterable of names (also one that can be walked only once)


def part_a(rec, li, n, seed, only=None):
    layout = S.LAYOUTS[li]
    for fr, to in S.SHIFTS:
        if fr not in layout or to not in layout:
            continue
        m = S.pos_len(fr, n)
        base0 = rows(m, seed)
        ncall = 0
        for rule, fv in RULES:
            for supply in supplies_for(rule, fv):
                gkw, ckw = supply_kwargs("X", rule, fv, supply)
                g = None
                for omit in (False, True):
                    if omit and S.default_shift(layout, fr) != to:
                        continue
                    case = dict(part="a", li=li, n=n, fr=fr, to=to, rule=rule, fv=fv, supply=supply, omit=omit)
                    if only is not None and only != case:
                        continue
                    ncall += 1
                    base = base0 * float(1 + ncall % 3)
                    da = xr.DataArray(base.copy(), dims=["b", S.dimname("X", fr)], name="q")
                    if supply == "callmap":
                        wide = np.repeat(base, 2, axis=1)
                        wide[:, 1::2] = -777.0
                        view = wide[:, ::2]
                        view.setflags(write=False)
                        da = xr.DataArray(view, dims=["b", S.dimname("X", fr)], name="q")
                    if g is None:
                        if supply == "grid+othermap":
                            g = build_grid({"X": layout, "Y": ("center", "left")}, {"X": n, "Y": 2}, gkw)
                        else:
                            g = build_grid({"X": layout}, {"X": n}, gkw)
                        if supply in ("grid", "gridmap", "default", "grid+othermap"):
                            # an earlier call with dict-spelled per-call settings must not stick to the Grid
                            try:
                                g.cumsum(da, "X", to=to, boundary={"X": "extend" if rule != "extend" else "fill"}, fill_value={"X": 77.0})
                            except Exception:
                                pass
                    kw = dict(ckw)
                    if not omit:
                        kw["to"] = to
                    rec.case(("a", li, n, fr, to, rule, fv, supply, omit), (fr, to) in LEADING or n >= 3, sample=case)
                    try:
                        r = g.cumsum(da, AXSPELL[(li + n) % 6](), **kw)
                        if not np.array_equal(da.values, base):
                            rec.violation("single-axis", "input-array-modified", case, base, da.values)
                            continue
                    except Exception as e:
                        rec.violation("single-axis", "raise:" + exc_sig(e), case, "array", f"{type(e).__name__}: {e}"[:200])
                        continue
                    exp = S.ref_cumsum(base, fr, to, n, rule, fv)
                    if compare(rec, "single-axis", case, r, exp, ("b", S.dimname("X", to))) and supply == "call" and not omit:
                        try:
                            r32 = g.cumsum(da.isel(b=slice(0, -1)).astype(np.float32), "X", **kw)
                            rec.calls += 1
                            if r32.dims != r.dims or not np.array_equal(np.asarray(r32.values, dtype=float), exp[:-1]):
                                rec.violation("single-axis", "values:float32", dict(case, dtype="float32"), exp, r32.values)
                        except Exception as e:
                            rec.violation("single-axis", "raise:float32:" + exc_sig(e), dict(case, dtype="float32"), "array", f"{type(e).__name__}: {e}"[:200])
                        # narrow integer and boolean data: the running sum is a sum, it neither wraps around nor saturates
                        if float(fv).is_integer() and abs(fv) < 100:
                            m_ = base.shape[1]
                            small = {"int8": (np.arange(m_) % 3 * 50 + 30).astype(np.int8)[None, :].repeat(2, 0), "bool": (np.arange(2 * m_).reshape(2, m_) % 3 > 0)}
                            # 64-bit integers beyond 2**53: the sum is exact, not merely to double precision
                            big_ = (np.arange(2 * m_, dtype=np.int64).reshape(2, m_) * 2 + 2 ** 55 + 1) * np.array([[1], [-1]], dtype=np.int64)
                            try:
                                rb_ = g.cumsum(xr.DataArray(big_, dims=da.dims), "X", **kw)
                                rec.calls += 1
                                eb_ = S.ref_cumsum(big_.astype(object), fr, to, n, rule, int(fv))
                                if [int(x) for x in np.asarray(rb_.values).ravel()] != [int(x) for x in eb_.ravel()]:
                                    rec.violation("single-axis", "values:int64-beyond-2**53", dict(case, dtype="int64-large"), eb_.astype(float), rb_.values)
                            except Exception as e:
                                rec.violation("single-axis", "raise:int64-large:" + exc_sig(e), dict(case, dtype="int64-large"), "array", f"{type(e).__name__}: {e}"[:200])
                            for nm_, arr_ in small.items():
                                try:
                                    rs_ = g.cumsum(xr.DataArray(arr_, dims=da.dims), "X", **kw)
                                    rec.calls += 1
                                    e_ = S.ref_cumsum(arr_.astype(float), fr, to, n, rule, fv)
                                    if not np.array_equal(np.asarray(rs_.values, dtype=float), e_):
                                        rec.violation("single-axis", f"values:{nm_}", dict(case, dtype=nm_), e_, rs_.values)
                                        break
                                except Exception as e:
                                    rec.violation("single-axis", f"raise:{nm_}:" + exc_sig(e), dict(case, dtype=nm_), "array", f"{type(e).__name__}: {e}"[:200])
                                    break


def part_b(rec, si, tier, seed, only=None):
    fr, to = S.SHIFTS[si]
    n = 2 if tier == "quick" else 3
    g = build_grid({"X": S.POS}, {"X": n}, dict(periodic=False))
    m = S.pos_len(fr, n)
    for ai, (extras, pos) in enumerate(arrangements()):
        dims = [d for d, _ in extras]
        shape = [s for _, s in extras]
        dims.insert(pos, S.dimname("X", fr))
        shape.insert(pos, m)
        a = (np.arange(int(np.prod(shape)), dtype=float).reshape(shape) * 2 + 1 + seed % 5) ** 2 % 37 - 9
        for rule, fv in (("extend", 0.0), ("fill", -7.0)):
            case = dict(part="b", si=si, ai=ai, rule=rule, fv=fv)
            if only is not None and only != case:
                continue
            da = xr.DataArray(a.copy(), dims=dims)
            rec.case(("b", si, ai, rule, fv, n), True, sample=dict(case, dims=dims, shape=shape))
            try:
                r = g.cumsum(da, "X", to=to, boundary=rule, fill_value=fv)
            except Exception as e:
                rec.violation("dim-order", "raise:" + exc_sig(e), case, "array", f"{type(e).__name__}: {e}"[:200])
                continue
            exp = np.moveaxis(S.ref_cumsum(np.moveaxis(a, pos, -1), fr, to, n, rule, fv), -1, pos)
            ed = list(dims)
            ed[pos] = S.dimname("X", to)
            compare(rec, "dim-order", case, r, exp, ed)


RULESETS = (
    dict(boundary="extend", fill_value=None),
    dict(boundary={"X": "fill", "Y": "extend", "Z": "fill"}, fill_value={"X": -3.0, "Y": 1.0, "Z": 2.0}),
    dict(boundary="fill", fill_value=0.0),
)


def part_c(rec, oi, tier, seed, only=None):
    order = axis_orders()[oi]
    g = build_grid(ML, MN, dict(periodic=False))
    starts = [dict.fromkeys(("X", "Y", "Z"), "center")]
    if tier == "thorough":
        starts += [dict(X="left", Y="outer", Z="inner"), dict(X="outer", Y="left", Z="right"), dict(X="inner", Y="center", Z="center")]
    for st_i, start in enumerate(starts):
        dims = ["t"] + [S.dimname(ax, start[ax]) for ax in ("Y", "X", "Z")]
        shape = [2] + [S.pos_len(start[ax], MN[ax]) for ax in ("Y", "X", "Z")]
        a = ((np.arange(int(np.prod(shape)), dtype=float) * 7 + 3 + seed % 4) % 23 - 6).reshape(shape)
        targets = []
        for ax in order:
            targets.append([p for p in ML[ax] if p != "center"] if start[ax] == "center" else ["center"])
        for tos in itertools.product(*targets):
            for ri, rs in enumerate(RULESETS):
                case = dict(part="c", oi=oi, st=st_i, tos=list(tos), ri=ri)
                if only is not None and only != case:
                    continue
                da = xr.DataArray(a.copy(), dims=dims)
                kw = {k: (dict(v) if isinstance(v, dict) else v) for k, v in rs.items() if v is not None}
                rec.case(("c", oi, st_i, tos, ri), True, sample=dict(case, order=list(order)), calls=len(order))
                # odd rule sets: the `to` mapping lists the axes in the opposite order of `axis`
                to_map = dict(zip(order, tos)) if ri % 2 == 0 else dict(reversed(list(zip(order, tos))))
                try:
                    r = g.cumsum(da, list(order), to=to_map, **kw)
                except Exception as e:
                    rec.violation("multi-axis", "raise:" + exc_sig(e), case, "array", f"{type(e).__name__}: {e}"[:200])
                    continue
                exp = a
                ed = list(dims)
                for ax, to in zip(order, tos):
                    rule = rs["boundary"][ax] if isinstance(rs["boundary"], dict) else rs["boundary"]
                    fv = rs["fill_value"][ax] if isinstance(rs["fill_value"], dict) else (rs["fill_value"] or 0.0)
                    i = ed.index(S.dimname(ax, start[ax]))
                    exp = np.moveaxis(S.ref_cumsum(np.moveaxis(exp, i, -1), start[ax], to, MN[ax], rule, fv), -1, i)
                    ed[i] = S.dimname(ax, to)
                compare(rec, "multi-axis", case, r, exp, ed)
                # law: order independence unless a non-zero fill value is in force
                nonzero_fill = any(
                    (rs["boundary"][ax] if isinstance(rs["boundary"], dict) else rs["boundary"]) == "fill"
                    and (rs["fill_value"][ax] if isinstance(rs["fill_value"], dict) else (rs["fill_value"] or 0.0)) != 0.0
                    for ax in order
                )
                if not nonzero_fill and len(order) >= 2:
                    rev = list(reversed(order))
                    try:
                        r2 = g.cumsum(da, rev, to=dict(zip(order, tos)), **kw)
                        rec.calls += len(order)
                        if not np.array_equal(r2.transpose(*r.dims).values, r.values):
                            rec.violation("law-order", "order-dependent", case, r.values, r2.transpose(*r.dims).values)
                    except Exception as e:
                        rec.violation("law-order", "raise:" + exc_sig(e), case, "array", str(e)[:200])


def part_laws(rec, li, n, seed, only=None):
    """diff(cumsum(to=outer, fill 0)) = id;  cumint = cumsum(da*metric);  last(cumint) = integrate"""
    layout = S.LAYOUTS[li]
    from xgcm import Grid

    ds = S.make_ds({"X": layout}, {"X": n})
    # a dyadic, non-uniform metric at every position of the layout
    for p in layout:
        ds["dx_" + p] = ((S.dimname("X", p),), 2.0 ** (np.arange(S.pos_len(p, n)) % 3 - 1) * (1 + (np.arange(S.pos_len(p, n)) % 2)))
    # a second metric for the centre position, registered only later (overwrite) on the same Grid
    ds["dx_center_new"] = ((S.dimname("X", "center"),), 3.0 ** (np.arange(n) % 2) * (1 + (np.arange(n) % 3)))
    with warnings.catch_warnings():
        warnings.simplefilter("ignore")
        g = Grid(ds, coords=S.grid_coords({"X": layout}), periodic=False, autoparse_metadata=False,
                 metrics={("X",): ["dx_" + p for p in layout]})
    base = rows(n, seed)
    da = xr.DataArray(base.copy(), dims=["b", S.dimname("X", "center")])
    if "outer" in layout:
        case = dict(part="law", law="inverse", li=li, n=n)
        if only is None or only == case:
            rec.case(("law-inv", li, n), True, sample=case, calls=2)
            try:
                back = g.diff(g.cumsum(da, "X", to="outer", boundary="fill", fill_value=0.0), "X", to="center")
                if back.dims != da.dims or not np.array_equal(back.values, base):
                    rec.violation("law-inverse", "not-identity", case, base, back.values)
            except Exception as e:
                rec.violation("law-inverse", "raise:" + exc_sig(e), case, "array", str(e)[:200])
    for to in layout:
        if to == "center":
            continue
        for rule, fv in (("fill", 0.0), ("extend", 0.0), ("fill", 3.0)):
            case = dict(part="law", law="cumint", li=li, n=n, to=to, rule=rule, fv=fv)
            if only is not None and only != case:
                continue
            rec.case(("law-cumint", li, n, to, rule, fv), True, sample=case, calls=3)
            try:
                ci = g.cumint(da, "X", to=to, boundary=rule, fill_value=fv)
                w = ds["dx_center"].values
                exp = S.ref_cumsum(base * w, "center", to, n, rule, fv)
                if ci.dims != ("b", S.dimname("X", to)) or not np.allclose(ci.values, exp, rtol=1e-12, atol=0):
                    rec.violation("law-cumint", "not-cumsum-of-weighted", case, exp, ci.values)
                    continue
                if to in ("outer", "right"):
                    it = g.integrate(da, "X")
                    if not np.allclose(ci.values[..., -1], it.values, rtol=1e-12, atol=0) or not np.allclose(it.values, (base * w).sum(-1), rtol=1e-12):
                        rec.violation("law-cumint", "last-not-integrate", case, it.values, ci.values[..., -1])
                        continue
                    # the same relation on data with a missing value (a land cell): whatever integrate makes of it
                    hole = base.copy()
                    hole[0, min(1, n - 1)] = np.nan
                    dh = xr.DataArray(hole, dims=da.dims)
                    cih, ith = g.cumint(dh, "X", to=to, boundary=rule, fill_value=fv), g.integrate(dh, "X")
                    if not np.allclose(cih.values[..., -1], ith.values, rtol=1e-12, atol=0, equal_nan=True):
                        rec.violation("law-cumint", "last-not-integrate:missing-value", dict(case, data="with-nan"), ith.values, cih.values[..., -1])
            except Exception as e:
                rec.violation("law-cumint", "raise:" + exc_sig(e), case, "array", str(e)[:200])
            # the same with a metric that does not vary along the integrated axis (dx as a function of y only, as on a regular
            # longitude / latitude grid): still cumsum(data * metric), the value supplied by the boundary rule included
            case2 = dict(case, metric="no-axis-dimension")
            if only is not None and only != case2:
                continue
            rec.case(("law-cumint-y", li, n, to, rule, fv), True, sample=case2, calls=1)
            try:
                ds2 = S.make_ds({"X": layout, "Y": ("center", "left")}, {"X": n, "Y": base.shape[0]})
                wy = 2.0 ** (np.arange(base.shape[0]) % 3) * 0.5
                ds2["dx_of_y"] = ((S.dimname("Y", "center"),), wy)
                with warnings.catch_warnings():
                    warnings.simplefilter("ignore")
                    g2 = Grid(ds2, coords=S.grid_coords({"X": layout, "Y": ("center", "left")}), periodic=False, autoparse_metadata=False,
                              metrics={("X",): ["dx_of_y"]})
                da2 = xr.DataArray(base.copy(), dims=[S.dimname("Y", "center"), S.dimname("X", "center")])
                ci2 = g2.cumint(da2, "X", to=to, boundary=rule, fill_value=fv)
                exp2 = S.ref_cumsum(base * wy[:, None], "center", to, n, rule, fv)
                got2 = ci2.transpose(S.dimname("Y", "center"), S.dimname("X", to)).values
                if not np.allclose(got2, exp2, rtol=1e-12, atol=0):
                    rec.violation("law-cumint", "not-cumsum-of-weighted:metric-without-axis-dimension", case2, exp2, got2)
            except Exception as e:
                rec.violation("law-cumint", "raise:metric-without-axis-dimension:" + exc_sig(e), case2, "array", str(e)[:200])
    # the metric at the centre is replaced on the same Grid (after all the calls above): cumint follows the registry
    case3 = dict(part="law", law="cumint-after-overwrite", li=li, n=n)
    if only is None or only == case3:
        rec.case(("law-cumint-ow", li, n), True, sample=case3, calls=len(layout))
        try:
            with warnings.catch_warnings():
                warnings.simplefilter("ignore")
                g.set_metrics(("X",), "dx_center_new", overwrite=True)
            w2 = ds["dx_center_new"].values
            for to in layout:
                if to == "center":
                    continue
                ci = g.cumint(da, "X", to=to, boundary="fill", fill_value=0.0)
                exp = S.ref_cumsum(base * w2, "center", to, n, "fill", 0.0)
                if not np.allclose(ci.values, exp, rtol=1e-12, atol=0):
                    rec.violation("law-cumint", "stale-metric-after-overwrite", dict(case3, to=to), exp, ci.values)
                    break
        except Exception as e:
            rec.violation("law-cumint", "raise-after-overwrite:" + exc_sig(e), case3, "array", str(e)[:200])
    # a Grid built with its own default shift for the centre position: `to` omitted follows it
    from .c01 import build_grid as _bg

    for p_ in layout:
        if p_ == "center":
            continue
        case4 = dict(part="law", law="grid-default-shift", li=li, n=n, to=p_)
        if only is not None and only != case4:
            continue
        rec.case(("law-dshift", li, n, p_), True, sample=case4, calls=2)
        try:
            g4 = _bg({"X": layout}, {"X": n}, dict(periodic=False, default_shifts={"X": {"center": p_}}))
            for op4 in ("cumsum", "interp"):
                r4 = getattr(g4, op4)(da, "X", boundary="extend")
                e4 = S.ref_cumsum(base, "center", p_, n, "extend", 0.0) if op4 == "cumsum" else S.ref_stencil(base, "center", p_, n, "interp", "extend", 0.0)
                if r4.dims != ("b", S.dimname("X", p_)) or not np.array_equal(r4.values, e4):
                    rec.violation("law-default-shift", f"{op4}-ignores-the-grid's-default-shift", dict(case4, op=op4), [S.dimname("X", p_)], list(r4.dims))
                    break
        except Exception as e:
            rec.violation("law-default-shift", "raise:" + exc_sig(e), case4, "array", str(e)[:200])


def shards(tier, seed):
    sh = [("a", li, n) for li in range(len(S.LAYOUTS)) for n in BOUNDS[tier]["n"]]
    sh += [("b", si) for si in range(len(S.SHIFTS))]
    sh += [("c", oi) for oi in range(len(axis_orders()))]
    sh += [("l", li, n) for li in range(1, len(S.LAYOUTS)) for n in BOUNDS[tier]["n"]]
    return sh


def run_shard(shard, tier, seed, rec):
    k = shard[0]
    if k == "a":
        part_a(rec, shard[1], shard[2], seed)
    elif k == "b":
        part_b(rec, shard[1], tier, seed)
    elif k == "c":
        part_c(rec, shard[1], tier, seed)
    else:
        part_laws(rec, shard[1], shard[2], seed)


def replay_case(case, seed, rec):
    p = case["part"]
    if p == "a":
        part_a(rec, case["li"], case["n"], seed, only=case)
    elif p == "b":
        for tier in ("quick", "thorough"):
            part_b(rec, case["si"], tier, seed, only=case)
            if rec.viol:
                break
    elif p == "c":
        part_c(rec, case["oi"], "thorough", seed, only=case)
    else:
        part_laws(rec, case["li"], case["n"], seed, only=case)
