"""C11  Grid ufuncs receive padded core dims last and return declared positions.

Every signature within bounds x every binding of dummy to real axes x boundary widths x rules x
input layouts x every route of supplying the options (call, Grid method, decorator, Annotated
hints; definition-time vs call-time values).  The user function is a *recorder-trimmer* generated
from the signature: it records what it receives and cuts outputs of the declared lengths from its
inputs.  Oracle: reference padding (index arithmetic) of the inputs transposed so that the
signature axes are last, and the same trimmer applied to the reference arrays.
"""
import itertools
import warnings
from typing import Annotated, Tuple

import numpy as np
import xarray as xr

from ..core import exc_sig
from ..ref import signature as G
from ..ref import simple as S

PID = "C11"
LEVEL = "exploration"
TECHNIQUE = "bounded exhaustive enumeration of signatures x axis bindings x widths x rules x option-supply routes with a generated recorder-trimmer user function, against reference padding and transposition"
RULE = (
    "case = (signature, binding, boundary_width, rule set, layouts, supply route); non-trivial = a non-zero width or >= 2 inputs"
)
SPACE = {
    "quick": "all 8079 signatures with 1-3 inputs, 1-2 outputs (incl. no core dims), <= 2 dummy axes per argument, total pairs <= 4 over positions {center,left,outer} whose outputs draw on one input, x every binding to the real axes X (c,l,o) / Y (c,l) that exists, 4 entries per signature and binding of rotating schedules of widths/rules/layouts/routes covering all 4 widths per dummy, 4 rule sets, 4 layouts, 5 routes; option matrix (definition vs call) for boundary, fill_value, boundary_width, pad_before_func, dask, map_overlap; wrong-position and wrong-count rejections on every input",
    "thorough": "12 schedule entries per signature and binding",
}
BOUNDS = {"quick": {"per": 4}, "thorough": {"per": 12}}
ASSUMPTIONS = [
    "a quarter of the cases give the inputs their own (mutually different) coordinate labels on the signature dimensions; labels are not data and must not influence whether or with what the function is called",
    "every input carries every axis boundary_width names (the statement's restriction): widths are given only for dummy axes present in all inputs",
    "the trimmer takes output cell i from input cell i modulo the received length, sums over core axes the output does not have - any function 'that trims what was padded' is an instance of cutting by index",
    "loop (non-core) dimensions are compared as a set in front of the core dimensions",
    "received cells that are new along two padded axes (corners) are not compared (the order of padding is not part of the statement)",
]
LAY = {"X": ("center", "left", "outer"), "Y": ("center", "left")}
NS = {"X": 3, "Y": 2}
WIDTHS = ((0, 0), (1, 0), (0, 1), (1, 2))
RULESETS = (
    dict(boundary="extend", fill_value=None),
    dict(boundary={"X": "fill", "Y": "periodic"}, fill_value={"X": -3.0, "Y": 1.0}),
    dict(boundary="fill", fill_value=5.0),
    dict(boundary={"X": "periodic", "Y": "extend"}, fill_value=None),
    dict(boundary="fill", fill_value=0.0),
    dict(boundary={"X": "fill", "Y": "fill"}, fill_value={"X": 0.0, "Y": 2.0}),
    # partial mappings: the axis they do not name keeps the Grid-level setting (fill with 9)
    dict(boundary={"X": "extend"}, fill_value=None),
    dict(boundary="fill", fill_value={"Y": 1.5}),
    dict(boundary={"Y": "periodic"}, fill_value={"X": -2.0}),
)
GRID_RULE = ("fill", 9.0)
ROUTES = ("function", "method", "decorator", "decorator-call-overrides", "annotated")
_SIGS = None


def sig_ok(sig):
    ins, outs = sig
    if any(len(a) == 0 for a in ins):
        return False
    innames = [{n for n, p in a} for a in ins]
    for o in outs:
        on = {n for n, p in o}
        if on and not any(on <= s for s in innames):
            return False
    return True


def signatures():
    global _SIGS
    if _SIGS is None:
        _SIGS = [s for s in G.enumerate_signatures(max_in=3, max_out=2, max_total=4, max_names=2, names=("p", "q"),
                                                   positions=("center", "left", "outer")) if sig_ok(s)]
    return _SIGS


def bindings(sig):
    names = []
    for a in sig[0]:
        for n_, p in a:
            if n_ not in names:
                names.append(n_)
    outs = []
    for perm in itertools.permutations(("X", "Y"), len(names)):
        b = dict(zip(names, perm))
        if all(p in LAY[b[n_]] for part in sig for a in part for n_, p in a):
            outs.append(b)
    return outs


def grid(rs=None):
    from xgcm import Grid

    ds = S.make_ds(LAY, NS, extra={"t": 2})
    # Grid-level settings that every rule set below must override
    kw = dict(boundary="fill", fill_value=9.0)
    with warnings.catch_warnings():
        warnings.simplefilter("ignore")
        return Grid(ds, coords=S.grid_coords(LAY), periodic=False, autoparse_metadata=False, **kw)


def rule_for(rs, ax):
    b = rs["boundary"].get(ax) if isinstance(rs["boundary"], dict) else rs["boundary"]
    f = rs["fill_value"]
    f = f.get(ax) if isinstance(f, dict) else f
    return (GRID_RULE[0] if b is None else b), (GRID_RULE[1] if f is None else float(f))


def make_trimmer(sig, binding, out_lengths, record):
    """out_lengths[k] = tuple of target lengths of output k's core axes"""
    ins, outs = sig

    def f(*arrays):
        record.append([np.array(a) for a in arrays])
        ncore = [len(a) for a in ins]
        loop = np.broadcast_shapes(*[arr.shape[: arr.ndim - nc] for arr, nc in zip(arrays, ncore)])
        res = []
        for k, o in enumerate(outs):
            names_o = [n_ for n_, p in o]
            src = next((i for i, a in enumerate(ins) if set(names_o) <= {n_ for n_, p in a}), 0)
            a = np.asarray(arrays[src], dtype=float)
            nc = ncore[src]
            src_names = [n_ for n_, p in ins[src]]
            lead = a.ndim - nc
            # sum over the core axes the output does not have
            drop = [lead + i for i, n_ in enumerate(src_names) if n_ not in names_o]
            keep = [n_ for n_ in src_names if n_ in names_o]
            a = a.sum(axis=tuple(drop)) if drop else a
            # reorder kept core axes into the output order
            perm = list(range(lead)) + [lead + keep.index(n_) for n_ in names_o]
            a = a.transpose(perm) if names_o else a
            for j, L in enumerate(out_lengths[k]):
                axn = lead + j
                m = a.shape[axn]
                a = np.take(a, np.arange(L) % m, axis=axn)
            a = np.broadcast_to(a, loop + a.shape[lead:]).copy()
            res.append(a * (k + 1))
        return res[0] if len(res) == 1 else tuple(res)

    return f


def build_inputs(sig, binding, layouts_idx, seed):
    """one DataArray per input: its signature dims plus optionally an extra dim 't'"""
    ins = sig[0]
    das = []
    for i, a in enumerate(ins):
        core = [S.dimname(binding[n_], p) for n_, p in a]
        sizes = [S.pos_len(p, NS[binding[n_]]) for n_, p in a]
        mode = (layouts_idx + i) % 4
        dims = list(core)
        shape = list(sizes)
        if mode == 1:
            dims, shape = ["t"] + dims, [2] + shape
        elif mode == 2:
            dims, shape = dims + ["t"], shape + [2]
        elif mode == 3:
            dims, shape = dims[::-1], shape[::-1]
        vals = (((np.arange(int(np.prod(shape))) * (7 + 2 * i) + seed + 3 * i) % 29).astype(float) - 8).reshape(shape)
        das.append(xr.DataArray(vals, dims=dims, name=f"in{i}"))
    return das


def reference(sig, binding, das, bw_real, rs, pad_before=True):
    """(expected recorded arrays, expected outputs [(values, dims)])"""
    ins, outs = sig
    loop_dims = []
    for da, a in zip(das, ins):
        core = [S.dimname(binding[n_], p) for n_, p in a]
        for d in da.dims:
            if d not in core and d not in loop_dims:
                loop_dims.append(d)
    arranged = []
    for da, a in zip(das, ins):
        core = [S.dimname(binding[n_], p) for n_, p in a]
        v = da.values
        dims = list(da.dims)
        if pad_before:
            for n_, p in a:
                ax = binding[n_]
                if ax in bw_real:
                    lo, hi = bw_real[ax]
                    rule, fv = rule_for(rs, ax)
                    v = S.ref_pad(v, dims.index(S.dimname(ax, p)), lo, hi, rule, fv)
        mine = [d for d in loop_dims if d in dims]
        v = v.transpose([dims.index(d) for d in mine + core])
        # insert length-1 axes for loop dims this input lacks, unless they are leading
        shape = []
        k = 0
        full = []
        for d in loop_dims:
            if d in mine:
                full.append(v.shape[k])
                k += 1
            else:
                full.append(1)
        v = v.reshape(full + list(v.shape[len(mine):]))
        arranged.append(v)
    out_lengths = [tuple(S.pos_len(p, NS[binding[n_]]) for n_, p in o) for o in outs]
    return loop_dims, arranged, out_lengths


def call_route(route, g, func, sig, binding, das, bw_dummy, rs, pad_before=True):
    from xgcm.grid_ufunc import apply_as_grid_ufunc, as_grid_ufunc

    text = G.unparse(sig)
    axis = [tuple(binding[n_] for n_, p in a) for a in sig[0]]
    kw = {k: (dict(v) if isinstance(v, dict) else v) for k, v in rs.items() if v is not None}
    bw = {k: tuple(v) for k, v in bw_dummy.items()} or None
    extra = {} if pad_before else {"pad_before_func": False}
    if route == "function":
        return apply_as_grid_ufunc(func, *das, axis=axis, grid=g, signature=text, boundary_width=bw, **kw, **extra)
    if route == "method":
        return g.apply_as_grid_ufunc(func, *das, axis=axis, signature=text, boundary_width=bw, **kw, **extra)
    if route == "decorator":
        guf = as_grid_ufunc(signature=text, boundary_width=bw, **kw, **extra)(func)
        return guf(g, *das, axis=axis)
    if route == "decorator-call-overrides":
        partial = any(isinstance(v, dict) and set(v) != {"X", "Y"} for v in kw.values())
        if partial:
            # a partial call-time mapping would let the bound decoy show through for the axes it omits
            guf = as_grid_ufunc(signature=text, boundary_width=bw, **extra)(func)
            return guf(g, *das, axis=axis, **kw)
        decoy = dict(boundary="fill" if kw.get("boundary") != "fill" else "extend", fill_value=99.0)
        guf = as_grid_ufunc(signature=text, boundary_width=bw, **decoy, **extra)(func)
        call_kw = dict(kw)
        call_kw.setdefault("fill_value", GRID_RULE[1])
        return guf(g, *das, axis=axis, **call_kw)
    if route == "annotated":
        ins, outs = sig
        if any(len(a) == 0 for part in sig for a in part):
            guf = as_grid_ufunc(signature=text, boundary_width=bw, **kw, **extra)(func)
            return guf(g, *das, axis=axis)

        def h(*a):
            return func(*a)

        ann = {}
        import inspect

        params = []
        for i, a in enumerate(ins):
            ann[f"a{i}"] = Annotated[np.ndarray, ",".join(f"{n_}:{p}" for n_, p in a)]
        rets = [Annotated[np.ndarray, ", ".join(f"{n_}:{p}" for n_, p in a)] for a in outs]
        ann["return"] = rets[0] if len(rets) == 1 else Tuple[tuple(rets)]
        if (len(text) + len(das)) % 2:
            # the same hints written as text (quoted annotations / `from __future__ import annotations`)
            q = lambda a: 'Annotated[np.ndarray, "%s"]' % ",".join(f"{n_}:{p}" for n_, p in a)
            ann = {f"a{i}": q(a) for i, a in enumerate(ins)}
            ann["return"] = q(outs[0]) if len(outs) == 1 else "Tuple[%s]" % ", ".join(q(a) for a in outs)
        h.__annotations__ = ann
        guf = as_grid_ufunc(boundary_width=bw, **kw, **extra)(h)
        return guf(g, *das, axis=axis)
    raise ValueError(route)


def run_case(rec, si, bi, sched, seed, g=None):
    sigs = signatures()
    sig = sigs[si]
    bs = bindings(sig)
    if bi >= len(bs):
        return
    binding = bs[bi]
    # dummy names are opaque: in a third of the cases they are spelled like the real axes, crosswise
    style = (si + sched) % 3
    if style:
        ren = {"p": "X", "q": "Y"} if style == 1 else {"p": "Y", "q": "X"}
        sig = tuple([tuple((ren[n_], p) for n_, p in a) for a in part] for part in sig)
        binding = {ren[k]: v for k, v in binding.items()}
    ins, outs = sig
    case = dict(kind="sig", si=si, bi=bi, sched=sched, text=G.unparse(sig), binding=binding)
    if g is None:
        g = grid()
    # widths only for dummies present in every input
    common = set.intersection(*[{n_ for n_, p in a} for a in ins])
    names = sorted(common)
    bw_dummy = {}
    for j, n_ in enumerate(names):
        w = WIDTHS[(sched + si + 3 * j + bi) % 4]
        if w != (0, 0) or (sched + j) % 2:
            bw_dummy[n_] = w
    rs = RULESETS[(sched + si // 3) % len(RULESETS)]
    route = ROUTES[(sched + si) % 5]
    das = build_inputs(sig, binding, sched + si, seed)
    fills_integral = all(float(rule_for(rs, ax)[1]).is_integer() for ax in ("X", "Y"))
    if (si + sched) % 5 == 4 and fills_integral:
        # the same (integral) values held in an integer dtype
        das = [d.astype(np.int64) for d in das]
    if (si + sched) % 4 == 1:
        # inputs that carry their own labels on the signature dimensions, different from input to input (another
        # convention, another precision): the function is still called with plain arrays, labels play no role
        das = [d.assign_coords({dim: (dim, (np.arange(d.sizes[dim]) * (i + 1.0) - 0.25 * i).astype(np.float32 if i % 2 else np.float64))
                                for dim in d.dims if dim != "t"}) for i, d in enumerate(das)]
    bw_real = {binding[n_]: w for n_, w in bw_dummy.items()}
    loop_dims, arranged, out_lengths = reference(sig, binding, das, bw_real, rs)
    nontriv = any(w != (0, 0) for w in bw_dummy.values()) or len(ins) >= 2
    rec.case((si, bi, sched), nontriv, sample=dict(case, route=route, bw=bw_dummy))
    record = []
    func = make_trimmer(sig, binding, out_lengths, record)
    try:
        with warnings.catch_warnings():
            warnings.simplefilter("ignore")
            res = call_route(route, g, func, sig, binding, das, bw_dummy, rs)
    except Exception as e:
        rec.violation("apply", f"raise:{exc_sig(e)}:{route}", case, "result", f"{type(e).__name__}: {e}"[:200])
        return
    if len(record) != 1:
        rec.violation("apply", "function-called-%d-times" % len(record), case, 1, len(record))
        return
    got_args = record[0]
    if len(got_args) != len(arranged):
        rec.violation("received", "argument-count", case, len(arranged), len(got_args))
        return
    loop_shape = np.broadcast_shapes(*[a.shape[: a.ndim - len(i_)] for a, i_ in zip(arranged, ins)])
    for k, (ga, ea, a) in enumerate(zip(got_args, arranged, ins)):
        nc = len(a)
        if ga.shape[ga.ndim - nc:] != ea.shape[ea.ndim - nc:]:
            cls = "core-dims-shape" + (":not-padded-by-declared-width" if any(w != (0, 0) for w in bw_dummy.values()) else "")
            rec.violation("received", cls, dict(case, arg=k), list(ea.shape), list(ga.shape))
            return
        try:
            gb = np.broadcast_to(ga, loop_shape + ga.shape[ga.ndim - nc:])
            eb = np.broadcast_to(ea, loop_shape + ea.shape[ea.ndim - nc:])
        except ValueError:
            rec.violation("received", "loop-dims-shape", dict(case, arg=k), list(ea.shape), list(ga.shape))
            return
        # cells that are new along two padded axes (corners) are not determined by the statement
        corner = np.zeros(gb.shape[gb.ndim - nc:], dtype=int)
        for j, (n_, p) in enumerate(a):
            lo, hi = bw_real.get(binding[n_], (0, 0))
            m_ = gb.shape[gb.ndim - nc + j]
            new = np.ones(m_, dtype=int)
            new[lo: m_ - hi] = 0
            shape = [1] * nc
            shape[j] = m_
            corner = corner + new.reshape(shape)
        keep = np.broadcast_to(corner < 2, gb.shape)
        if not np.array_equal(gb[keep], eb[keep]):
            cls = "values:padding-or-order-of-core-dims"
            rec.violation("received", cls, dict(case, arg=k), eb, gb)
            return
    # outputs
    # the return path is judged on what the function actually received (validated above)
    exp_out = make_trimmer(sig, binding, out_lengths, [])(*got_args)
    exp_out = exp_out if isinstance(exp_out, tuple) else (exp_out,)
    res_t = tuple(res) if isinstance(res, (tuple, list)) else (res,)
    if len(res_t) != len(outs):
        rec.violation("returned", "number-of-outputs", case, len(outs), len(res_t))
        return
    for k, (r, e, o) in enumerate(zip(res_t, exp_out, outs)):
        core = [S.dimname(binding[n_], p) for n_, p in o]
        if not isinstance(r, xr.DataArray):
            rec.violation("returned", "not-a-DataArray", dict(case, out=k), "DataArray", type(r).__name__)
            return
        nc = len(core)
        if list(r.dims[len(r.dims) - nc:]) != core or set(r.dims[: len(r.dims) - nc]) != set(loop_dims):
            rec.violation("returned", "dims", dict(case, out=k), loop_dims + core, list(r.dims))
            return
        rv = r.transpose(*(loop_dims + core)).values
        if rv.shape != e.shape or not np.array_equal(rv, e):
            rec.violation("returned", "values", dict(case, out=k), e, rv)
            return


# ------------------------------------------------------------------ option matrix
def _diff(a):
    return a[..., 1:] - a[..., :-1]


def option_cases():
    cs = []
    # mappings naming the operated axis and mappings naming only the *other* axis: a call-time mapping replaces the
    # bound one as a whole (an axis it does not name falls back to the Grid's own setting, not to the bound mapping)
    vals = {"boundary": ["extend", "fill", {"X": "periodic"}, {"Y": "extend"}], "fill_value": [5.0, -2.0, {"X": 1.5}, {"Y": 7.0}],
            "boundary_width": [{"X": (1, 0)}, {"Y": (0, 0)}], "pad_before_func": [True, False]}
    for opt, vs in vals.items():
        for d in [None] + vs:
            for c in [None] + vs:
                if d is None and c is None:
                    continue
                cs.append(dict(kind="option", opt=opt, d=d, c=c))
    for d in (None, "forbidden", "parallelized"):
        for c in (None, "forbidden", "parallelized"):
            cs.append(dict(kind="option", opt="dask", d=d, c=c))
    for d in (None, False, True):
        for c in (None, False, True):
            cs.append(dict(kind="option", opt="map_overlap", d=d, c=c))
    return cs


def run_option(rec, case, seed):
    """definition-time option == same option at call time; call-time value wins"""
    from xgcm.grid_ufunc import apply_as_grid_ufunc, as_grid_ufunc

    g = grid()
    opt, d, c = case["opt"], case["d"], case["c"]
    base = dict(boundary="fill", fill_value=0.0, boundary_width={"X": (1, 0)})
    eff = c if c is not None else d
    vals = ((np.arange(2 * 3) * 5 + seed) % 7).astype(float).reshape(2, 3) + 1
    da = xr.DataArray(vals, dims=["t", "xc"])
    if opt in ("dask", "map_overlap"):
        da = da.chunk({"t": 1, "xc": 3} if opt == "dask" else {"t": 2, "xc": (2, 1)})
    rec.case(("opt", opt, repr(d), repr(c)), True, sample=case)

    def norm(v):
        return dict(v) if isinstance(v, dict) else v

    want_kw = dict(base)
    if opt == "boundary" and isinstance(eff, str) is False and eff is not None:
        want_kw["boundary"] = norm(eff)
    elif eff is not None:
        want_kw[opt] = norm(eff)
    if opt == "boundary" and eff == "fill":
        want_kw["fill_value"] = 0.0
    # reference behaviour: everything given at call time to the plain function
    if opt == "map_overlap":
        want_kw["dask"] = "allowed"
    if opt == "dask" and eff is None:
        want_kw["dask"] = "forbidden"

    def run(fn):
        try:
            with warnings.catch_warnings():
                warnings.simplefilter("ignore")
                r = fn()
                return ("ok", tuple(r.dims), np.asarray(r.values).tobytes())
        except Exception as e:
            return ("raise", type(e).__name__)

    want = run(lambda: apply_as_grid_ufunc(_diff, da, axis=[("X",)], grid=g, signature="(X:center)->(X:left)", **want_kw))
    # the Grid method is the same call
    got_m = run(lambda: g.apply_as_grid_ufunc(_diff, da, axis=[("X",)], signature="(X:center)->(X:left)", **{k: norm(v) for k, v in want_kw.items()}))
    if got_m != want:
        rec.violation("options", f"{opt}:grid-method-differs-from-function", case, want[:2] + ((np.frombuffer(want[2]).tolist(),) if want[0] == "ok" else ()),
                      got_m[:2] + ((np.frombuffer(got_m[2]).tolist(),) if got_m[0] == "ok" else ()))
        return
    def_kw = {k: norm(v) for k, v in base.items()}
    call_kw = {}
    if d is not None:
        def_kw[opt] = norm(d)
    if c is not None:
        call_kw[opt] = norm(c)
    if opt == "map_overlap":
        def_kw["dask"] = "allowed"
    bw = def_kw.pop("boundary_width")
    guf = as_grid_ufunc(signature="(X:center)->(X:left)", boundary_width=bw, **def_kw)(_diff)
    got = run(lambda: guf(g, da, axis=[("X",)], **call_kw))
    if got != want:
        which = "definition-time-value-ignored" if c is None else ("call-time-value-rejected" if got[0] == "raise" else "call-time-value-does-not-win")
        rec.violation("options", f"{opt}:{which}", case, want[:2] + ((np.frombuffer(want[2]).tolist(),) if want[0] == "ok" else ()),
                      got[:2] + ((np.frombuffer(got[2]).tolist(),) if got[0] == "ok" else ()))
        return
    if c is not None:
        # a call-time value holds for that call only: the same grid ufunc object called again without it answers like a
        # freshly defined one
        again = run(lambda: guf(g, da, axis=[("X",)]))
        fresh = run(lambda: as_grid_ufunc(signature="(X:center)->(X:left)", boundary_width={k: tuple(v) for k, v in bw.items()}, **{k: norm(v) for k, v in def_kw.items()})(_diff)(g, da, axis=[("X",)]))
        rec.calls += 2
        if again != fresh:
            rec.violation("options", f"{opt}:call-time-value-sticks-to-the-grid-ufunc", case, fresh[:2] + ((np.frombuffer(fresh[2]).tolist(),) if fresh[0] == "ok" else ()),
                          again[:2] + ((np.frombuffer(again[2]).tolist(),) if again[0] == "ok" else ()))


# ------------------------------------------------------------------ two-axis halos under map_overlap
def _stencil2(a):
    # trailing axes: first signature axis extended by (1, 1), second by (0, 1)
    return a[..., 1:-1, :-1] * 2.0 + a[..., :-2, :-1] - a[..., 2:, 1:]


def run_overlap2d(rec, seed):
    """each signature axis is extended by the width declared *for that axis*, whatever the listing order of
    boundary_width, also when the function is mapped over dask blocks"""
    from xgcm.grid_ufunc import apply_as_grid_ufunc, as_grid_ufunc

    g = grid()
    nx, ny = NS["X"], NS["Y"]
    vals = ((np.arange(2 * nx * ny) * 5 + seed) % 11).astype(float).reshape(2, nx, ny) + 1
    base = xr.DataArray(vals, dims=["t", "xc", "yc"])
    kw = dict(boundary={"X": "fill", "Y": "extend"}, fill_value={"X": 3.0, "Y": 0.0})
    for names in (("X", "Y"), ("a", "b"), ("Y", "X")):
        A, B = names
        sig = f"({A}:center,{B}:center)->({A}:center,{B}:center)"
        for order in ("sig-order", "reversed"):
            bw = {A: (1, 1), B: (0, 1)} if order == "sig-order" else {B: (0, 1), A: (1, 1)}
            for route in ("function", "decorator"):
                for chunks in ({"t": 1, "xc": nx, "yc": ny}, {"t": 2, "xc": (2, nx - 2), "yc": ny}, {"t": 1, "xc": (1,) * nx, "yc": (1,) * ny}):
                    case = dict(kind="overlap2d", names=list(names), order=order, route=route, chunks={k: list(v) if isinstance(v, tuple) else v for k, v in chunks.items()})
                    rec.case(("ov2", names, order, route, repr(chunks)), True, sample=case)
                    try:
                        with warnings.catch_warnings():
                            warnings.simplefilter("ignore")
                            want = apply_as_grid_ufunc(_stencil2, base, axis=[("X", "Y")], grid=g, signature=sig, boundary_width=dict(bw), **kw)
                            if route == "function":
                                got = apply_as_grid_ufunc(_stencil2, base.chunk(chunks), axis=[("X", "Y")], grid=g, signature=sig, boundary_width=dict(bw),
                                                          dask="allowed", map_overlap=True, **kw)
                            else:
                                got = as_grid_ufunc(signature=sig, boundary_width=dict(bw), dask="allowed", map_overlap=True)(_stencil2)(
                                    g, base.chunk(chunks), axis=[("X", "Y")], **kw)
                            got = got.compute()
                    except Exception as e:
                        rec.violation("overlap2d", "raise:" + exc_sig(e), case, "same as the in-memory call", f"{type(e).__name__}: {e}"[:200])
                        continue
                    if got.dims != want.dims or not np.array_equal(got.values, want.values):
                        rec.violation("overlap2d", "values", case, want.values, got.values)


# ------------------------------------------------------------------ rejections
# ------------------------------------------------------------------ halos wider than the axis
def run_wide_halo(rec, seed):
    """the function receives exactly the declared widths, also when a width exceeds the length of the (periodic, filled
    or extended) axis: 1-3 cells, widths up to 2n + 1 on either side, definition-time and call-time routes"""
    from xgcm import Grid
    from xgcm.grid_ufunc import apply_as_grid_ufunc, as_grid_ufunc

    for n in (1, 2, 3):
        ds = S.make_ds({"X": ("center", "left")}, {"X": n}, extra={"t": 2})
        with warnings.catch_warnings():
            warnings.simplefilter("ignore")
            g = Grid(ds, coords=S.grid_coords({"X": ("center", "left")}), periodic=True, autoparse_metadata=False)
        vals = ((np.arange(2 * n) * 5 + seed) % 7).astype(float).reshape(2, n) + 1
        da = xr.DataArray(vals, dims=["t", S.dimname("X", "center")])
        for lo, hi in ((n + 1, 0), (0, 2 * n + 1), (n + 2, n + 1), (n, n)):
            for rule, fv in (("periodic", None), ("fill", 4.0), ("extend", None)):
                for route in ("call", "decorator"):
                    case = dict(kind="wide-halo", n=n, width=[lo, hi], rule=rule, route=route)
                    got = []

                    def f(a):
                        got.append(np.array(a))
                        return a[..., lo: lo + n]

                    kw = dict(boundary=rule) if fv is None else dict(boundary=rule, fill_value=fv)
                    rec.case(("wide", n, lo, hi, rule, route), True, sample=case)
                    try:
                        with warnings.catch_warnings():
                            warnings.simplefilter("ignore")
                            if route == "call":
                                r = apply_as_grid_ufunc(f, da, axis=[("X",)], grid=g, signature="(X:center)->(X:center)", boundary_width={"X": (lo, hi)}, **kw)
                            else:
                                r = as_grid_ufunc(signature="(X:center)->(X:center)", boundary_width={"X": (lo, hi)}, **kw)(f)(g, da, axis=[("X",)])
                    except Exception as e:
                        rec.violation("wide-halo", "raise:" + exc_sig(e), case, "array", f"{type(e).__name__}: {e}"[:200])
                        continue
                    exp = S.ref_pad(vals, 1, lo, hi, rule, 0.0 if fv is None else fv)
                    if not got or got[0].shape != exp.shape or not np.array_equal(got[0], exp):
                        rec.violation("wide-halo", "function-received-other-than-the-declared-halo", case, exp, got[0] if got else None)
                        continue
                    if not np.array_equal(r.values, vals):
                        rec.violation("wide-halo", "result", case, vals, r.values)


def run_rejections(rec, seed):
    from xgcm.grid_ufunc import apply_as_grid_ufunc

    g = grid()
    sigs = [s for s in signatures() if len(s[0]) >= 1][::97]
    for si_, sig in enumerate(sigs):
        for binding in bindings(sig)[:1]:
            ins, outs = sig
            das = build_inputs(sig, binding, 0, seed)
            out_lengths = [tuple(S.pos_len(p, NS[binding[n_]]) for n_, p in o) for o in outs]
            func = make_trimmer(sig, binding, out_lengths, [])
            axis = [tuple(binding[n_] for n_, p in a) for a in ins]
            text = G.unparse(sig)
            # each input in turn on a wrong position
            for k, a in enumerate(ins):
                n0, p0 = a[0]
                ax = binding[n0]
                other = [p for p in LAY[ax] if p != p0][0]
                bad = list(das)
                d_old = S.dimname(ax, p0)
                shape = [S.pos_len(other, NS[ax]) if d == d_old else s for d, s in zip(das[k].dims, das[k].shape)]
                bad[k] = xr.DataArray(np.zeros(shape), dims=[S.dimname(ax, other) if d == d_old else d for d in das[k].dims])
                case = dict(kind="reject", text=text, binding=binding, what=f"input-{k}-on-{other}-instead-of-{p0}")
                rec.case(("rej", text, k), True, sample=case)
                try:
                    with warnings.catch_warnings():
                        warnings.simplefilter("ignore")
                        apply_as_grid_ufunc(func, *bad, axis=axis, grid=g, signature=text)
                    rec.violation("rejection", "wrong-position-accepted", case, "raise", "returned")
                except Exception:
                    pass
            # wrong number of inputs / axis entries
            for what, args_, axis_ in (("one-input-too-few", das[:-1], axis), ("one-axis-entry-too-few", das, axis[:-1]),
                                       ("one-input-too-many", das + [das[0]], axis)):
                case = dict(kind="reject", text=text, binding=binding, what=what)
                rec.case(("rej", text, what), True)
                try:
                    with warnings.catch_warnings():
                        warnings.simplefilter("ignore")
                        apply_as_grid_ufunc(func, *args_, axis=axis_, grid=g, signature=text)
                    rec.violation("rejection", "wrong-count-accepted:" + what, case, "raise", "returned")
                except Exception:
                    pass


def shards(tier, seed):
    n = len(signatures())
    sh = [("sigs", lo, min(lo + 150, n)) for lo in range(0, n, 150)]
    sh += [("options",), ("rejections",), ("overlap2d",), ("wide-halo",)]
    return sh


def run_shard(shard, tier, seed, rec):
    if shard[0] == "sigs":
        g = grid()
        for si in range(shard[1], shard[2]):
            for bi in range(2):
                for sched in range(BOUNDS[tier]["per"]):
                    run_case(rec, si, bi, sched, seed, g)
    elif shard[0] == "options":
        for c in option_cases():
            run_option(rec, c, seed)
    elif shard[0] == "overlap2d":
        run_overlap2d(rec, seed)
    elif shard[0] == "wide-halo":
        run_wide_halo(rec, seed)
    else:
        run_rejections(rec, seed)


def replay_case(case, seed, rec):
    k = case["kind"]
    if k == "sig":
        run_case(rec, case["si"], case["bi"], case["sched"], seed)
    elif k == "option":
        run_option(rec, dict(kind="option", opt=case["opt"], d=_tup(case["d"]), c=_tup(case["c"])), seed)
    elif k == "overlap2d":
        rec.MAXVIOL = 10 ** 6
        run_overlap2d(rec, seed)
        rec.viol = [v for v in rec.viol if v["case"] == case]
    elif k == "wide-halo":
        rec.MAXVIOL = 10 ** 6
        run_wide_halo(rec, seed)
        rec.viol = [v for v in rec.viol if v["case"] == case]
    else:
        run_rejections(rec, seed)
        rec.viol = [v for v in rec.viol if v["case"].get("what") == case.get("what") and v["case"].get("text") == case.get("text")]


def _tup(v):
    if isinstance(v, dict):
        return {k: tuple(x) if isinstance(x, list) else x for k, x in v.items()}
    return v
