"""C20  Ill-posed requests raise instead of returning an array.

A corpus of valid calls (every layout x shift x operation of C01/C09, transforms of C07/C08, grid
ufuncs of C11; each first checked to return) and to each *every single ill-posing edit* of the
listed classes.  Oracle: the edited call raises some Exception; returning any object is the
violation.
"""
import itertools
import warnings

import numpy as np
import xarray as xr

from ..core import exc_sig
from ..ref import simple as S
from .c01 import PADS, build_grid

PID = "C20"
LEVEL = "exploration"
TECHNIQUE = "bounded exhaustive enumeration of (valid call, single ill-posing edit) pairs on every axis layout; the edited real call must raise"
RULE = "case = (valid call, edit); every case is non-trivial by construction: its unedited twin returned on the same grid"
SPACE = {
    "quick": "16 layouts x n in {2,3,4} x valid shifts x {diff,interp,min,max,cumsum} x edits {unknown axis, unknown axis in list, data lacks axis dim, data has two axis dims (each other position), to = current position, to = each position the axis lacks, to = unknown word, unknown boundary word (21 words incl. the numpy.pad mode names, capitalisations and near misses; call scalar: all, call mapping / constructor: every 5th), string fill value (call scalar / call mapping / constructor) on padded shifts}; transform edits (bins as ndarray and as DataArray); grid ufunc edits; metric operations (integrate, average, get_metric, derivative, cumint, metric_weighted) x {unknown axis, lacking / doubled axis dimension}",
    "thorough": "n in {2,3,4,5,6}",
}
BOUNDS = {"quick": {"n": [2, 3, 4]}, "thorough": {"n": [2, 3, 4, 5, 6]}}
ASSUMPTIONS = [
    "an unknown boundary word or a string fill value is demanded to raise only when it is in force for an axis that the request actually pads with non-zero width",
    "list-valued fill values are not 'non-numeric' (NumPy reads them as per-side values)",
    "a dask-backed answer is computed: an exception raised by the computation counts as the refusal",
]
# unknown boundary words: not one of fill / extend / periodic.  Besides plain nonsense: the mode names of numpy.pad /
# xarray.pad (what the library translates its own words into), other capitalisations, near misses
BAD_WORDS = ("constant", "edge", "wrap", "reflect", "symmetric", "mean", "empty", "linear_ramp", "maximum", "minimum", "median",
             "Fill", "EXTEND", "Periodic", "fil", "extended", "periodic ", "", "none", "nearest", "zero")
CUMSUM_PADS = {("center", "left"), ("right", "center"), ("center", "outer"), ("inner", "center")}
OPS = ("diff", "interp", "min", "max", "cumsum")


def attempt(rec, sub, cls, case, fn):
    try:
        with warnings.catch_warnings():
            warnings.simplefilter("ignore")
            r = fn()
            if isinstance(r, xr.DataArray) and r.chunks is not None:
                # a lazy answer: the refusal may be deferred to the computation
                r = r.compute()
    except Exception:
        rec.outcomes["raised"] += 1
        return
    what = type(r).__name__
    if isinstance(r, xr.DataArray):
        what += str(tuple(r.dims))
    rec.violation(sub, cls, case, "an exception", "returned " + what)


def layout_edits(rec, li, n, seed, only=None):
    layout = S.LAYOUTS[li]
    g = build_grid({"X": layout, "Y": ("center", "left")}, {"X": n, "Y": 2}, dict(periodic=False))
    for fr, to in S.SHIFTS:
        if fr not in layout or to not in layout:
            continue
        m = S.pos_len(fr, n)
        vals = ((np.arange(2 * m) * 3 + seed) % 7).astype(float).reshape(2, m) + 1
        d_in = S.dimname("X", fr)
        da = xr.DataArray(vals, dims=["t", d_in])
        for op in OPS:
            base = dict(li=li, n=n, fr=fr, to=to, op=op)
            try:
                with warnings.catch_warnings():
                    warnings.simplefilter("ignore")
                    getattr(g, op)(da, "X", to=to, boundary="extend")
            except Exception:
                rec.counters["valid-twin-raised"] += 1
                continue
            pads = (fr, to) in (CUMSUM_PADS if op == "cumsum" else PADS)
            edits = []
            call = lambda **kw: (lambda: getattr(g, op)(kw.pop("data", da), kw.pop("axis", "X"), **{"to": to, "boundary": "extend", **kw}))
            edits.append(("unknown-axis", call(axis="Q")))
            edits.append(("unknown-axis-in-list", call(axis=["X", "Q"])))
            edits.append(("unknown-axis-first-in-list", call(axis=["Q", "X"])))
            edits.append(("data-lacks-axis-dim", call(data=da.rename({d_in: "foo"}))))
            for p in layout:
                if p != fr:
                    d2 = S.dimname("X", p)
                    two = da.expand_dims({d2: S.pos_len(p, n)}) if S.pos_len(p, n) > 0 else None
                    if two is not None:
                        edits.append((f"data-has-two-axis-dims:{p}", call(data=two)))
            edits.append(("to-is-current-position", call(to=fr)))
            for p in S.POS:
                if p not in layout:
                    edits.append((f"to-position-axis-lacks:{p}", call(to=p)))
            edits.append(("to-unknown-word", call(to="middle")))
            # unknown words that are falsy: the empty string (scalar and in a mapping), another capitalisation
            edits.append(("to-unknown-word:empty", call(to="")))
            edits.append(("to-unknown-word-in-mapping:empty", call(to={"X": ""})))
            edits.append(("to-unknown-word:capitalised", call(to=to.capitalize())))
            edits.append(("to-unknown-word-in-mapping", call(to={"X": "centre"})))
            # a fill value that is not a number is refused whether or not the shift needs boundary cells
            edits.append(("string-fill-value", call(boundary="fill", fill_value="abc")))
            edits.append(("string-fill-value-in-mapping", call(boundary="fill", fill_value={"X": "abc"})))
            edits.append(("bytes-fill-value", call(boundary="fill", fill_value=b"0")))
            # text that spells a number is still not a number
            edits.append(("numeric-looking-string-fill-value", call(boundary="fill", fill_value="1")))
            edits.append(("numeric-looking-string-fill-value-in-mapping", call(boundary="fill", fill_value={"X": "nan"})))
            if pads:
                edits.append(("unknown-boundary-word", call(boundary="bogus")))
                edits.append(("unknown-boundary-word-in-mapping", call(boundary={"X": "bogus"})))
                k0 = (li * 7 + n * 3 + S.SHIFTS.index((fr, to)) + OPS.index(op)) % len(BAD_WORDS)
                for j, w in enumerate(BAD_WORDS):
                    edits.append((f"unknown-boundary-word:{w!r}", call(boundary=w)))
                    if (j - k0) % 5 == 0:
                        edits.append((f"unknown-boundary-word-in-mapping:{w!r}", call(boundary={"X": w})))

                        def ctor_w(w=w):
                            gg = build_grid({"X": layout}, {"X": n}, dict(periodic=False, boundary=w))
                            return getattr(gg, op)(da, "X", to=to)

                        def ctor_wm(w=w):
                            gg = build_grid({"X": layout}, {"X": n}, dict(periodic=False, boundary={"X": w}))
                            return getattr(gg, op)(da, "X", to=to)

                        edits.append((f"unknown-boundary-word-at-construction:{w!r}", ctor_w))
                        edits.append((f"unknown-boundary-word-in-mapping-at-construction:{w!r}", ctor_wm))

                def ctor_b():
                    gg = build_grid({"X": layout}, {"X": n}, dict(periodic=False, boundary="bogus"))
                    return getattr(gg, op)(da, "X", to=to)

                def ctor_f():
                    gg = build_grid({"X": layout}, {"X": n}, dict(periodic=False, boundary="fill", fill_value="abc"))
                    return getattr(gg, op)(da, "X", to=to)

                def ctor_bm():
                    gg = build_grid({"X": layout}, {"X": n}, dict(periodic=False, boundary={"X": "bogus"}))
                    return getattr(gg, op)(da, "X", to=to)

                edits.append(("unknown-boundary-word-at-construction", ctor_b))
                edits.append(("unknown-boundary-word-in-mapping-at-construction", ctor_bm))
                edits.append(("string-fill-value-at-construction", ctor_f))

                def ctor_f1():
                    gg = build_grid({"X": layout}, {"X": n}, dict(periodic=False, boundary="fill", fill_value="1"))
                    return getattr(gg, op)(da, "X", to=to)

                def ctor_f2():
                    gg = build_grid({"X": layout}, {"X": n}, dict(periodic=False, boundary="fill", fill_value={"X": "-2.5"}))
                    return getattr(gg, op)(da, "X", to=to)

                edits.append(("numeric-looking-string-fill-value-at-construction", ctor_f1))
                edits.append(("numeric-looking-string-fill-value-in-mapping-at-construction", ctor_f2))
            for name, fn in edits:
                case = dict(base, edit=name)
                if only is not None and only != case:
                    continue
                rec.case(("lay", li, n, fr, to, op, name), True, sample=case)
                attempt(rec, "grid-op", f"{name.split(':')[0]}:{op}", case, fn)


def transform_edits(rec, seed, only=None):
    from xgcm import Grid

    nz = 3

    def mk(periodic=False, outer=True, boundary=None):
        coords = {"zc": ("zc", np.arange(nz) + 0.5), "x": ("x", [0, 1])}
        gc = {"center": "zc"}
        if outer:
            coords["zo"] = ("zo", np.arange(nz + 1.0))
            gc["outer"] = "zo"
        else:
            coords["zl"] = ("zl", np.arange(nz) * 1.0)
            gc["left"] = "zl"
        ds = xr.Dataset(coords=coords)
        with warnings.catch_warnings():
            warnings.simplefilter("ignore")
            return Grid(ds, coords={"Z": gc}, periodic=periodic, boundary=boundary, autoparse_metadata=False)

    da = xr.DataArray(np.array([[1.0, 2.0, 4.0], [10.0, 20.0, 40.0]]), dims=["x", "zc"], name="foo")
    td = xr.DataArray(np.array([[0.0, 1.0, 2.0], [5.0, 3.0, 1.0]]), dims=["x", "zc"], name="dens")
    tdo = xr.DataArray(np.array([[0.0, 1.0, 2.0, 3.0], [6.0, 4.0, 2.0, 0.0]]), dims=["x", "zo"], name="densb")
    lev = np.array([0.5, 1.5])
    bins = np.array([0.0, 1.0, 6.0])
    valid = {
        "linear": lambda g: g.transform(da, "Z", lev, target_data=td),
        "log": lambda g: g.transform(da, "Z", lev, target_data=td + 1, method="log"),
        "conservative": lambda g: g.transform(da, "Z", bins, target_data=tdo, method="conservative"),
        "conservative-center": lambda g: g.transform(da, "Z", bins, target_data=td, method="conservative"),
        # valid calls that ask to skip the (costly) checks of the *data*: the request itself must still be well posed
        "linear-bypass": lambda g: g.transform(da, "Z", lev, target_data=td, bypass_checks=True),
        "log-bypass": lambda g: g.transform(da, "Z", lev, target_data=td + 1, method="log", bypass_checks=True),
        "conservative-bypass": lambda g: g.transform(da, "Z", bins, target_data=tdo, method="conservative", bypass_checks=True),
    }
    g0 = mk()
    for name, fn in valid.items():
        try:
            with warnings.catch_warnings():
                warnings.simplefilter("ignore")
                fn(g0)
        except Exception:
            rec.counters["valid-twin-raised"] += 1
            continue
        edits = [("periodic-axis", lambda fn=fn: fn(mk(periodic=True))), ("periodic-axis-by-boundary", lambda fn=fn: fn(mk(boundary="periodic"))),
                 ("periodic-axis-by-list", lambda fn=fn: fn(mk(periodic=["Z"]))), ("unknown-axis", lambda name=name: g0.transform(da, "Q", lev, target_data=td))]
        if name.startswith("conservative"):
            # (the monotonicity of the bins is one of the data checks that bypass_checks=True deliberately skips)
            for bi, bad in enumerate(([0.0, 2.0, 1.0], [0.0, 1.0, 1.0], [3.0, 1.0, 2.0, 0.0], [1.0, 1.0]) if not name.endswith("bypass") else ()):
                t_d = tdo if name in ("conservative", "conservative-bypass") else td
                edits.append((f"non-monotonic-bins:{bi}", lambda bad=bad, t_d=t_d: g0.transform(da, "Z", np.array(bad), target_data=t_d, method="conservative")))
                # the same bins handed over as a DataArray without a coordinate / with a label coordinate
                edits.append((f"non-monotonic-bins-dataarray:{bi}", lambda bad=bad, t_d=t_d: g0.transform(
                    da, "Z", xr.DataArray(np.array(bad), dims=["bins"]), target_data=t_d, method="conservative")))
                edits.append((f"non-monotonic-bins-labelled-dataarray:{bi}", lambda bad=bad, t_d=t_d: g0.transform(
                    da, "Z", xr.DataArray(np.array(bad), dims=["bins"], coords={"bins": np.arange(len(bad))}), target_data=t_d, method="conservative")))
            edits.append(("no-outer-position", lambda name=name: mk(outer=False).transform(da, "Z", bins, target_data=td, method="conservative", bypass_checks=name.endswith("bypass"))))
        for ename, efn in edits:
            case = dict(kind="transform", call=name, edit=ename)
            if only is not None and only != case:
                continue
            rec.case(("tr", name, ename), True, sample=case)
            attempt(rec, "transform", f"{ename.split(':')[0]}:{name}", case, efn)


def metric_edits(rec, seed, only=None):
    """reductions and operations that go through the metric lookup"""
    from xgcm import Grid

    n = 3
    lay = {"X": ("center", "left", "outer"), "Y": ("center", "left")}
    ds = S.make_ds(lay, {"X": n, "Y": 2})
    for p in lay["X"]:
        ds["dx_" + p] = ((S.dimname("X", p),), np.arange(S.pos_len(p, n)) + 1.0)
    ds["dy_c"] = (("yc",), np.array([2.0, 3.0]))
    with warnings.catch_warnings():
        warnings.simplefilter("ignore")
        g = Grid(ds, coords=S.grid_coords(lay), periodic=False, boundary="extend", autoparse_metadata=False,
                 metrics={("X",): ["dx_" + p for p in lay["X"]], ("Y",): ["dy_c"]})
    da = xr.DataArray(np.arange(2.0 * n).reshape(2, n) + 1, dims=["yc", "xc"])
    two = da.expand_dims({"xl": n})
    two_o = da.expand_dims({"xo": n + 1})
    calls = {
        "integrate": lambda d, ax: g.integrate(d, ax), "average": lambda d, ax: g.average(d, ax), "get_metric": lambda d, ax: g.get_metric(d, (ax,) if isinstance(ax, str) else ax),
        "derivative": lambda d, ax: g.derivative(d, ax), "cumint": lambda d, ax: g.cumint(d, ax, to="left", boundary="fill"),
        "interp-mw": lambda d, ax: g.interp(d, ax, metric_weighted=ax),
    }
    for name, fn in calls.items():
        try:
            with warnings.catch_warnings():
                warnings.simplefilter("ignore")
                fn(da, "X")
        except Exception:
            rec.counters["valid-twin-raised"] += 1
            continue
        edits = [("unknown-axis", lambda fn=fn: fn(da, "Q")), ("data-lacks-axis-dim", lambda fn=fn: fn(da.rename(xc="foo"), "X")),
                 ("data-has-two-axis-dims:left", lambda fn=fn: fn(two, "X")), ("data-has-two-axis-dims:outer", lambda fn=fn: fn(two_o, "X"))]
        if name in ("integrate", "average", "get_metric"):
            edits += [("unknown-axis-in-list", lambda fn=fn: fn(da, ["X", "Q"])), ("two-axis-dims-in-multi-axis-request", lambda fn=fn: fn(two, ["Y", "X"]))]
        for ename, efn in edits:
            case = dict(kind="metric", call=name, edit=ename)
            if only is not None and only != case:
                continue
            rec.case(("met", name, ename), True, sample=case)
            attempt(rec, "metric-op", f"{ename.split(':')[0]}:{name}", case, efn)


def ufunc_edits(rec, seed, only=None):
    from xgcm.grid_ufunc import apply_as_grid_ufunc

    g = build_grid({"X": ("center", "left", "outer"), "Y": ("center", "left")}, {"X": 3, "Y": 2}, dict(periodic=False))
    a = xr.DataArray(np.arange(6.0).reshape(3, 2), dims=["xc", "yc"])
    b = xr.DataArray(np.arange(3.0), dims=["xl"])
    f2 = lambda u, v: u[..., :, :] + v[..., :, None]
    sig = "(p:center,q:center),(p:left)->(p:center,q:center)"
    axis = [("X", "Y"), ("X",)]
    try:
        apply_as_grid_ufunc(f2, a, b, axis=axis, grid=g, signature=sig)
    except Exception:
        rec.counters["valid-twin-raised"] += 1
        return
    edits = [
        ("first-input-on-wrong-position", lambda: apply_as_grid_ufunc(f2, a.rename(xc="xl"), b, axis=axis, grid=g, signature=sig)),
        ("second-input-on-wrong-position", lambda: apply_as_grid_ufunc(f2, a, b.rename(xl="xc"), axis=axis, grid=g, signature=sig)),
        ("first-input-second-axis-wrong-position", lambda: apply_as_grid_ufunc(f2, a.rename(yc="yl"), b, axis=axis, grid=g, signature=sig)),
        ("one-input-too-few", lambda: apply_as_grid_ufunc(f2, a, axis=axis, grid=g, signature=sig)),
        ("one-input-too-many", lambda: apply_as_grid_ufunc(f2, a, b, b, axis=axis, grid=g, signature=sig)),
        ("axis-entry-too-few", lambda: apply_as_grid_ufunc(f2, a, b, axis=axis[:1], grid=g, signature=sig)),
        ("axis-arity-mismatch", lambda: apply_as_grid_ufunc(f2, a, b, axis=[("X",), ("X",)], grid=g, signature=sig)),
        ("unknown-axis", lambda: apply_as_grid_ufunc(f2, a, b, axis=[("X", "Q"), ("X",)], grid=g, signature=sig)),
        ("position-axis-lacks", lambda: apply_as_grid_ufunc(f2, a, b, axis=axis, grid=g, signature="(p:center,q:outer),(p:left)->(p:center,q:center)")),
        ("no-grid", lambda: apply_as_grid_ufunc(f2, a, b, axis=axis, grid=None, signature=sig)),
        ("no-axis", lambda: apply_as_grid_ufunc(f2, a, b, grid=g, signature=sig)),
        ("malformed-signature", lambda: apply_as_grid_ufunc(f2, a, b, axis=axis, grid=g, signature="(p:center,q:center),(p:left)")),
    ]
    # a function that takes any number of arrays: too few inputs must be refused by the library, not by the function
    fv = lambda *arrs: arrs[0]
    sigv = "(p:center),(p:left)->(p:center)"
    a1 = xr.DataArray(np.arange(3.0), dims=["xc"])
    try:
        apply_as_grid_ufunc(fv, a1, b, axis=[("X",), ("X",)], grid=g, signature=sigv)
        edits += [
            ("variadic:one-input-too-few-axis-list-shortened", lambda: apply_as_grid_ufunc(fv, a1, axis=[("X",)], grid=g, signature=sigv)),
            ("variadic:one-input-too-few-axis-list-shortened:method", lambda: g.apply_as_grid_ufunc(fv, a1, axis=[("X",)], signature=sigv)),
            ("variadic:one-input-too-few", lambda: apply_as_grid_ufunc(fv, a1, axis=[("X",), ("X",)], grid=g, signature=sigv)),
            ("variadic:one-input-too-many", lambda: apply_as_grid_ufunc(fv, a1, b, b, axis=[("X",), ("X",), ("X",)], grid=g, signature=sigv)),
        ]
    except Exception:
        rec.counters["valid-twin-raised"] += 1
    # the numbers of axes per input exchanged between two inputs (the totals agree), with a function that broadcasts
    sigw = "(p:center),(p:center,q:center)->(p:center)"
    a2 = xr.DataArray(np.arange(6.0).reshape(3, 2), dims=["xc", "yc"])
    try:
        apply_as_grid_ufunc(lambda u, v: u + v.sum(-1), a1, a2, axis=[("X",), ("X", "Y")], grid=g, signature=sigw)
        edits.append(("axis-counts-exchanged-between-inputs:reducing-function", lambda: apply_as_grid_ufunc(lambda u, v: u + v.sum(-1), a1, a2, axis=[("X", "Y"), ("X",)], grid=g, signature=sigw)))
        edits.append(("axis-counts-exchanged-between-inputs", lambda: apply_as_grid_ufunc(np.add, a1, a2, axis=[("X", "Y"), ("X",)], grid=g, signature=sigw)))
        edits.append(("axis-counts-exchanged-between-inputs:data-too", lambda: apply_as_grid_ufunc(np.add, a2, a1, axis=[("X", "Y"), ("X",)], grid=g, signature=sigw)))
    except Exception:
        rec.counters["valid-twin-raised"] += 1
    # signatures naming the same (axis, position) for several inputs: every input is checked, also a later one whose
    # wrong position has the same length (center / left), for 2 and 3 inputs and for every input being the wrong one
    c1 = xr.DataArray(np.arange(3.0), dims=["xc"])
    l1 = xr.DataArray(np.arange(3.0) + 10, dims=["xl"])
    for nin in (2, 3):
        sigs_ = ",".join(["(p:center)"] * nin) + "->(p:center)"
        fadd = lambda *arrs: sum(arrs[1:], arrs[0])
        try:
            apply_as_grid_ufunc(fadd, *([c1] * nin), axis=[("X",)] * nin, grid=g, signature=sigs_)
        except Exception:
            rec.counters["valid-twin-raised"] += 1
            continue
        for wrong in range(nin):
            ins = [l1 if k == wrong else c1 for k in range(nin)]
            edits.append((f"same-position-named-{nin}-times:input-{wrong}-on-wrong-position-of-equal-length",
                          lambda ins=ins, nin=nin, sigs_=sigs_: apply_as_grid_ufunc(fadd, *ins, axis=[("X",)] * nin, grid=g, signature=sigs_)))
            edits.append((f"same-position-named-{nin}-times:input-{wrong}-on-wrong-position-of-equal-length:decorated",
                          lambda ins=ins, nin=nin, sigs_=sigs_: __import__("xgcm").grid_ufunc.as_grid_ufunc(signature=sigs_)(fadd)(g, *ins, axis=[("X",)] * nin)))
    # a text fill value on a grid ufunc that adds no halo
    edits.append(("string-fill-value-without-halo", lambda: apply_as_grid_ufunc(lambda u: u, c1, axis=[("X",)], grid=g, signature="(p:center)->(p:center)", boundary="fill", fill_value="abc")))
    for ename, efn in edits:
        case = dict(kind="ufunc", edit=ename)
        if only is not None and only != case:
            continue
        rec.case(("uf", ename), True, sample=case)
        attempt(rec, "grid-ufunc", ename, case, efn)


def shards(tier, seed):
    return [("lay", li, n) for li in range(len(S.LAYOUTS)) for n in BOUNDS[tier]["n"]] + [("transform",), ("ufunc",), ("metric",)]


def run_shard(shard, tier, seed, rec):
    if shard[0] == "lay":
        layout_edits(rec, shard[1], shard[2], seed)
    elif shard[0] == "transform":
        transform_edits(rec, seed)
    elif shard[0] == "metric":
        metric_edits(rec, seed)
    else:
        ufunc_edits(rec, seed)


def replay_case(case, seed, rec):
    if case.get("kind") == "transform":
        transform_edits(rec, seed, only=case)
    elif case.get("kind") == "ufunc":
        ufunc_edits(rec, seed, only=case)
    elif case.get("kind") == "metric":
        metric_edits(rec, seed, only=case)
    else:
        layout_edits(rec, case["li"], case["n"], seed, only=case)
