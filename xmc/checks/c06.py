"""C06  Lazy (dask) execution equals in-memory execution for every chunking.

(A) every composition of every dimension length into chunks x operations x shifts: the call must
    not trigger a computation (dask callback), must return a dask-backed result, and computing it
    (synchronous scheduler) must give the eager values, dims and coordinates; the refusal contract
    (chunked operated axis with inner/outer -> NotImplementedError) is checked both ways;
(B) face-connected grids chunked over face / extra dimensions, scalar and vector inputs;
(C) model checking of schedules: the graph of one case per (operation, shift) class is executed by
    xmc.dasksched under *every* task order within a deviation bound from dask's static order;
(D) free-running pass with the real threaded scheduler (reported separately).
"""
import itertools
import warnings

import numpy as np
import xarray as xr

from .. import explorer
from ..core import compositions, exc_sig
from ..dasksched import BuildMonitor, Graph
from ..ref import simple as S

PID = "C06"
LEVEL = "model_checking"
TECHNIQUE = "exhaustive enumeration of chunk compositions x operations (laziness monitor, eager comparison) + exploration of all dask task orders within a deviation bound by an own executor of the real graph"
RULE = (
    "state = (case, outcome digest) ; transition = one ready-task choice of the own executor or one chunked real call; "
    "non-trivial = at least one dimension is split into >= 2 chunks"
)
SPACE = {
    "quick": "(A) dims (t:2, yc:2, x:4) every chunk composition (2 x 2 x 8; outer 16, inner 4) x {diff,interp,min,max,cumsum,derivative,cumint} x 8 shifts + integrate/average + ops along Y + lazy metrics + apply_as_grid_ufunc with/without map_overlap + user ufuncs with halo widths up to 3 (wider than some chunks) x 3 rules + a kernel that is not dask-aware under map_overlap + a two-axis user ufunc with unequal halos listed in either order + inputs with the core dimension first / float32 / a dask-backed auxiliary coordinate; joint compute of two results; (B) 2-face grid, every chunking of (t, face) x scalar/vector x {diff,interp}; (C) 26 graphs, all task orders with <= 1 deviation; (D) threaded scheduler on every 5th case",
    "thorough": "x:5; (C) <= 2 deviations; (D) every case",
}
BOUNDS = {"quick": {"N": 4, "deviations": 1}, "thorough": {"N": 5, "deviations": 2}}
ASSUMPTIONS = [
    "eager results are the oracle (C01/C09/C10 establish them)",
    "races between truly parallel threads inside one NumPy kernel are not modelled; only task-order effects are explored exhaustively, the threaded pass is a free-running observation",
    "a chunked operated axis with inner/outer positions may either be refused with NotImplementedError or answered correctly; anything else is a violation",
]

OPS1 = ("diff", "interp", "min", "max", "cumsum", "derivative", "cumint")
REFUSABLE = ("diff", "interp", "min", "max", "derivative")
POSD = {p: S.dimname("X", p) for p in S.POS}


def grid_A(N, lazy_metrics=False, rules=None):
    from xgcm import Grid

    lay = {"X": S.POS, "Y": ("center", "left")}
    ns = {"X": N, "Y": 2}
    ds = S.make_ds(lay, ns, extra={"t": 2})
    for p in S.POS:
        ds["dx_" + p] = ((POSD[p],), np.arange(S.pos_len(p, N)) * 1.0 + 2)
    ds["dy_c"] = (("yc",), np.array([3.0, 5.0]))
    ds["dy_l"] = (("yl",), np.array([2.0, 4.0]))
    if lazy_metrics:
        ds = ds.chunk()
    with warnings.catch_warnings():
        warnings.simplefilter("ignore")
        return Grid(ds, coords=S.grid_coords(lay), periodic=False, autoparse_metadata=False, **(rules or dict(boundary="extend")),
                    metrics={("X",): ["dx_" + p for p in S.POS], ("Y",): ["dy_c", "dy_l"]})


def data_A(N, fr, seed):
    m = S.pos_len(fr, N)
    a = (((np.arange(2 * 2 * m) * 7 + seed) % 19).astype(float) - 6).reshape(2, 2, m) ** 2
    return xr.DataArray(a, dims=["t", "yc", POSD[fr]], name="q")


def call(g, op, da, axis, kw):
    return getattr(g, op)(da, axis, **kw)


def _ufunc(a):
    return a[..., 1:] - a[..., :-1]


def _wide(lo, hi):
    def f(a):
        m = a.shape[-1]
        out = a[..., lo: m - hi] * 2.0
        if lo:
            out = out + a[..., : m - lo - hi]
        if hi:
            out = out + a[..., lo + hi:]
        return out

    return f


WIDE = ((2, 0), (0, 2), (2, 1), (1, 2), (2, 2), (3, 1))


def call_wide(g, da, mo, wi, rule):
    lo, hi = WIDE[wi]
    return g.apply_as_grid_ufunc(_wide(lo, hi), da, axis=[("X",)], signature="(X:center)->(X:center)", boundary_width={"X": (lo, hi)},
                                 boundary=rule, fill_value=3.0, dask="allowed" if mo else "parallelized", map_overlap=mo)


def call_multi(g, da, kind):
    """user ufuncs whose numbers of inputs and outputs differ (no map_overlap: the core dim is not chunked)"""
    if kind == "1to2":
        f = lambda a: (a[..., 1:] - a[..., :-1], a[..., 1:-0 or None][..., : a.shape[-1] - 1] * 2.0)
        r = g.apply_as_grid_ufunc(f, da, axis=[("X",)], signature="(X:center)->(X:left),(X:center)", boundary_width={"X": (1, 0)},
                                  boundary="extend", dask="parallelized")
        return r[0] + r[1].rename(xc="xl").assign_coords(xl=r[0].xl)
    f2 = lambda a, b: a[..., 1:] - b[..., :-1]
    return g.apply_as_grid_ufunc(f2, da, da * 3.0 + 1.0, axis=[("X",), ("X",)], signature="(X:center),(X:center)->(X:left)",
                                 boundary_width={"X": (1, 0)}, boundary="fill", fill_value=2.0, dask="parallelized")


def _ufunc_np(a):
    # a kernel that is not dask-aware (it asks for a real array): under map_overlap it only ever sees in-memory blocks
    a = np.asarray(a)
    return a[..., 1:] - a[..., :-1]


def _ufunc2d(a):
    # trailing axes (X extended by (1, 1), Y by (0, 1))
    return a[..., 1:-1, :-1] * 2.0 + a[..., :-2, :-1] - a[..., 2:, 1:]


def _ufunc2d_x(a):
    # a halo along the first of the two signature axes only
    return a[..., 1:-1, :] * 2.0 + a[..., :-2, :] - a[..., 2:, :]


BW2D = {"sig-order": {"X": (1, 1), "Y": (0, 1)}, "reversed": {"Y": (0, 1), "X": (1, 1)}, "only-x": {"X": (1, 1)}}


def _ufunc_io(a, b):
    return a + 0.5 * (b[..., 1:] + b[..., :-1])


def call_ufunc_io(g, da, eo, mo):
    """two inputs, the second on the outer position: refused when chunked along the operated axis"""
    return g.apply_as_grid_ufunc(_ufunc_io, da, eo, axis=[("X",), ("X",)], signature="(X:center),(X:outer)->(X:center)",
                                 dask="allowed" if mo else "parallelized", map_overlap=mo)


def call_ufunc2d(g, da, mo, kind):
    """a two-axis user ufunc with different total halo widths on the two axes; the widths listed in either order"""
    return g.apply_as_grid_ufunc(_ufunc2d_x if kind == "only-x" else _ufunc2d, da, axis=[("X", "Y")], signature="(X:center,Y:center)->(X:center,Y:center)",
                                 boundary_width=dict(BW2D[kind]), boundary={"X": "fill", "Y": "extend"}, fill_value={"X": 3.0, "Y": 0.0},
                                 dask="allowed" if mo else "parallelized", map_overlap=mo)


def call_ufunc(g, da, mo):
    return g.apply_as_grid_ufunc(_ufunc_np if mo else _ufunc, da, axis=[("X",)], signature="(X:center)->(X:left)", boundary_width={"X": (1, 0)},
                                 boundary="fill", fill_value=3.0, dask="allowed" if mo else "parallelized", map_overlap=mo)


def check_lazy(rec, sub, case, build, eager_fn, expect_refuse, chunked, threads=False, second=None, defect_model=None):
    """build(): the lazy call; eager_fn(): the in-memory call"""
    import dask

    try:
        with warnings.catch_warnings():
            warnings.simplefilter("ignore")
            ee = eager_fn()
    except Exception as e:
        ee = e
    mon = BuildMonitor()
    rec.case(tuple(sorted(case.items(), key=str)), chunked, sample=case, calls=2)
    try:
        with warnings.catch_warnings():
            warnings.simplefilter("ignore")
            with mon:
                r = build()
        built = mon.n
    except Exception as e:
        if isinstance(ee, Exception):
            rec.outcomes["both-raise"] += 1
            return None
        if expect_refuse and isinstance(e, NotImplementedError):
            rec.outcomes["refused"] += 1
            return None
        rec.violation(sub, ("refused-with:" if expect_refuse else "lazy-raise:") + exc_sig(e), case, "lazy result", f"{type(e).__name__}: {e}"[:200])
        return None
    if isinstance(ee, Exception):
        rec.violation(sub, "eager-raises-lazy-returns:" + exc_sig(ee), case, f"{type(ee).__name__}", "returned")
        return None
    if built != 0:
        rec.violation(sub, "computed-while-building", case, 0, built)
        return None
    if not dask.is_dask_collection(r.data):
        rec.violation(sub, "result-not-lazy", case, "dask collection", type(r.data).__name__)
        return None
    try:
        v = r.compute(scheduler="synchronous")
    except Exception as e:
        rec.violation(sub, "compute-raise:" + exc_sig(e), case, "values", f"{type(e).__name__}: {e}"[:200])
        return None
    if v.dims != ee.dims:
        rec.violation(sub, "dims", case, list(ee.dims), list(v.dims))
        return None
    if v.shape != ee.shape or not np.array_equal(v.values, ee.values, equal_nan=True):
        if defect_model is not None:
            # recorded defect (known_findings.json): classified as such only if the observed values are exactly what the
            # defect model predicts; any other mismatch of the same case is an ordinary violation
            try:
                with warnings.catch_warnings():
                    warnings.simplefilter("ignore")
                    dm = defect_model()
            except Exception:
                dm = None
            if dm is not None and dm.shape == v.shape and np.array_equal(np.asarray(dm.values, dtype=float), np.asarray(v.values, dtype=float), equal_nan=True):
                rec.violation(sub, "integer-lazy-data:interp-declared-integer-then-truncated-by-fill-padding", case, ee.values, v.values)
                return None
        rec.violation(sub, "values-differ-from-eager", case, ee.values, v.values)
        return None
    if set(v.coords) != set(ee.coords) or any(not np.array_equal(v.coords[c].values, ee.coords[c].values) for c in ee.coords):
        rec.violation(sub, "coords-differ-from-eager", case, sorted(map(str, ee.coords)), sorted(map(str, v.coords)))
        return None
    rec.outcomes["lazy-equal"] += 1
    if second is not None:
        # two results of the same operation on different data, computed in one graph and combined
        try:
            with warnings.catch_warnings():
                warnings.simplefilter("ignore")
                r2 = second[0]()
                e2 = second[1]()
                v1, v2 = dask.compute(r, r2, scheduler="synchronous")
                prod = (r * r2).compute(scheduler="synchronous")
            rec.counters["joint_computes"] += 1
            if not (np.array_equal(v1.values, ee.values, equal_nan=True) and np.array_equal(v2.values, e2.values, equal_nan=True)):
                rec.violation(sub, "joint-compute-differs-from-eager", case, [ee.values, e2.values], [v1.values, v2.values])
                return None
            if not np.array_equal(prod.values, (ee * e2).values, equal_nan=True):
                rec.violation(sub, "combined-expression-differs-from-eager", case, (ee * e2).values, prod.values)
                return None
        except Exception as e:
            rec.violation(sub, "joint-compute-raise:" + exc_sig(e), case, "values", f"{type(e).__name__}: {e}"[:200])
            return None
    if threads:
        vt = r.compute(scheduler="threads")
        rec.counters["threaded_runs"] += 1
        if not np.array_equal(vt.values, ee.values, equal_nan=True):
            rec.violation("threads", "threaded-differs-from-eager", case, ee.values, vt.values)
    return r, ee


def part_A(rec, tier, seed, fr, to, only=None):
    N = BOUNDS[tier]["N"]
    g = grid_A(N)
    glazy = grid_A(N, lazy_metrics=True)
    # a second Grid over the same dataset with other Grid-level rules: handed the very same lazy variable
    galt = grid_A(N, rules=dict(boundary={"X": "fill", "Y": "extend"}, fill_value={"X": 5.0, "Y": 0.0}))
    e_in = data_A(N, fr, seed)
    m = S.pos_len(fr, N)
    io = "inner" in (fr, to) or "outer" in (fr, to)
    idx = 0
    for cx in compositions(m):
        for ct in compositions(2):
            for cy in compositions(2):
                chunks = {"t": ct, "yc": cy, POSD[fr]: cx}
                ops = [(op, "X", dict(to=to)) for op in OPS1]
                # a second axis that is never inner/outer: its chunking must not matter for the refusal
                ops += [("interp", ["Y", "X"], dict(to={"Y": "left", "X": to})), ("diff", ["X", "Y"], dict(to={"Y": "left", "X": to})),
                        ("min", ["X", "Y"], dict(to={"Y": "left", "X": to})), ("max", ["Y", "X"], dict(to={"Y": "left", "X": to}))]
                if (fr, to) == ("center", "left"):
                    ops += [("integrate", "X", {}), ("average", "X", {}), ("integrate", ["X", "Y"], {}), ("diff", "Y", dict(to="left")),
                            ("cumsum", ["Y", "X"], dict(to="left")), ("interp", ["X", "Y"], dict(to="left", boundary="fill", fill_value=2.0)),
                            ("ufunc", "mo", {}), ("ufunc", "nomo", {})]
                    ops += [("multi", "1to2", {}), ("multi", "2to1", {})]
                    ops += [("ufunc2d", "sig-order", {}), ("ufunc2d", "reversed", {}), ("ufunc2d", "only-x", {}), ("ufunc2d-par", "only-x", {}), ("ufunc-io", "mo", {})]
                    # user ufuncs whose halo is wider than some chunks
                    ops += [("wide", (wi, rule), {}) for wi in range(len(WIDE)) for rule in ("fill", "periodic", "extend")]
                if fr != "center" and to == "center":
                    ops += [("integrate", "X", {}), ("average", "X", {})]
                for op, axis, kw in ops:
                    for lm in ((False, True) if op in ("derivative", "cumint", "integrate", "average") else (False,)):
                        idx += 1
                        case = dict(part="A", fr=fr, to=to, cx=list(cx), ct=list(ct), cy=list(cy), op=op, axis=axis, lm=lm)
                        if only is not None and only != {k: v for k, v in case.items()} and only != dict(case, layout="x-first-float32") and only != dict(case, layout="dask-aux-coordinate") and only != dict(case, layout="int64") and only != dict(case, grid="alt-rules") and only != dict(case, layout="x-first-float32", grid="alt-rules") and not (op == "wide" and only == dict(case, axis=list(axis))):
                            continue
                        gg = glazy if lm else g
                        chunked_axis = len(cx) > 1 if (axis == "X" or axis == "mo" or axis == "nomo" or op in ("wide", "ufunc2d", "ufunc2d-par", "ufunc-io") or (isinstance(axis, list) and "X" in axis)) else False
                        chunked_y = len(cy) > 1 and (axis == "Y" or (isinstance(axis, list) and "Y" in axis))
                        if op == "multi":
                            if len(cx) > 1:
                                continue
                            build = lambda: call_multi(gg, e_in.chunk(chunks), axis)
                            eager = lambda: call_multi(gg, e_in, axis)
                            refuse = False
                        elif op == "wide":
                            wi, wrule = axis
                            case = dict(case, axis=[wi, wrule])
                            build = lambda: call_wide(gg, e_in.chunk(chunks), True, wi, wrule)
                            eager = lambda: call_wide(gg, e_in, False, wi, wrule)
                            refuse = False
                            chunked_axis = len(cx) > 1
                        elif op == "ufunc-io":
                            eo_ = xr.DataArray(np.arange(2.0 * 2 * (N + 1)).reshape(2, 2, N + 1) * 0.5 - 3, dims=["t", "yc", POSD["outer"]])
                            oc = {"t": ct, "yc": cy, POSD["outer"]: (tuple(cx[:-1]) + (cx[-1] + 1,))}
                            build = lambda: call_ufunc_io(gg, e_in.chunk(chunks), eo_.chunk(oc), True)
                            eager = lambda: call_ufunc_io(gg, e_in, eo_, False)
                            # (with map_overlap=True requested the library refuses this signature whatever the chunking: allowed)
                            refuse = True
                            chunked_axis = True
                        elif op == "ufunc2d-par":
                            if len(cx) > 1 or len(cy) > 1:
                                continue  # outside the statement: xarray refuses chunked core dims without map_overlap
                            build = lambda: call_ufunc2d(gg, e_in.chunk(chunks), False, axis)
                            eager = lambda: call_ufunc2d(gg, e_in, False, axis)
                            refuse = False
                        elif op == "ufunc2d":
                            build = lambda: call_ufunc2d(gg, e_in.chunk(chunks), True, axis)
                            eager = lambda: call_ufunc2d(gg, e_in, False, axis)
                            refuse = False
                        elif op == "ufunc":
                            if axis == "nomo" and len(cx) > 1:
                                continue  # outside the statement: xarray itself refuses chunked core dims without map_overlap
                            build = lambda: call_ufunc(gg, e_in.chunk(chunks), axis == "mo")
                            eager = lambda: call_ufunc(gg, e_in, False)
                            refuse = False
                        else:
                            build = lambda: call(gg, op, e_in.chunk(chunks), axis, kw)
                            eager = lambda: call(gg, op, e_in, axis, kw)
                            refuse = chunked_axis and io and op in REFUSABLE
                        anych = len(cx) > 1 or len(ct) > 1 or len(cy) > 1
                        if op not in ("ufunc", "wide", "multi", "ufunc2d", "ufunc2d-par", "ufunc-io") and idx % 4 == 1:
                            # the operated dimension first, in single precision: neither the position of
                            # the core dimension among the others nor the dtype may matter
                            e_t = e_in.transpose(POSD[fr], "t", "yc").astype(np.float32)
                            case = dict(case, layout="x-first-float32")
                            build = lambda: call(gg, op, e_t.chunk(chunks), axis, kw)
                            eager = lambda: call(gg, op, e_t, axis, kw)
                        if op in ("diff", "interp", "min", "max", "cumsum") and idx % 4 == 2:
                            # integer-typed lazy data (means of integers are not integers; blocks keep the kernel's dtype)
                            e_i = (e_in * 1).astype(np.int64)
                            case = dict(case, layout="int64")
                            build = lambda: call(gg, op, e_i.chunk(chunks), axis, kw)
                            eager = lambda: call(gg, op, e_i, axis, kw)
                        second = None
                        if op not in ("ufunc", "wide", "multi", "ufunc2d", "ufunc2d-par", "ufunc-io") and idx % 6 == 2 and "layout" not in case:
                            # the input carries a dask-backed 2-D auxiliary coordinate chunked differently from the data
                            aux = xr.DataArray(np.arange(2.0 * m).reshape(2, m), dims=["yc", POSD[fr]]).chunk({"yc": 1, POSD[fr]: m})
                            e_aux = e_in.assign_coords(aux=aux)
                            case = dict(case, layout="dask-aux-coordinate")
                            build = lambda: call(gg, op, e_in.chunk(chunks).assign_coords(aux=aux), axis, kw)
                            eager = lambda: call(gg, op, e_aux.compute(), axis, kw)
                        if op not in ("ufunc", "wide", "multi", "ufunc2d", "ufunc2d-par", "ufunc-io") and idx % 3 == 0:
                            e2_in = (e_in * 3 + 1).rename("q2")
                            second = (lambda: call(gg, op, e2_in.chunk(chunks), axis, kw), lambda: call(gg, op, e2_in, axis, kw))
                        plain = op not in ("ufunc", "wide", "multi", "ufunc2d", "ufunc2d-par", "ufunc-io")
                        if plain and second is None and idx % 3 == 1 and op in OPS1 and "layout" not in case and not (chunked_axis and io):
                            # another operation on the *same* lazy variable (same padding, same overlap) computed in the same
                            # graph: neither kernel may disturb the block the other one reads
                            op2_ = {"diff": "interp", "interp": "diff", "min": "diff", "max": "diff", "cumsum": "diff", "derivative": "interp", "cumint": "diff"}[op]
                            second = (lambda: call(gg, op2_, e_in.chunk(chunks), axis, kw), lambda: call(gg, op2_, e_in, axis, kw))
                        dmodel = None
                        if case.get("layout") == "int64" and op == "interp" and isinstance(axis, list):
                            # defect model: the lazy result of the first axis is declared int64; a following padding with the
                            # fill rule casts the (floating point) blocks to that declared dtype
                            dmodel = lambda: call(gg, op, call(gg, op, e_i, axis[0], kw).astype(np.int64), axis[1], kw)
                        check_lazy(rec, "simple-grid", case, build, eager, refuse, anych,
                                   threads=(tier == "thorough" or idx % 5 == 0), second=second, defect_model=dmodel)
                        if plain and not lm and idx % 4 in (1, 3) and case.get("layout") in (None, "x-first-float32"):
                            # the same lazy variable on a Grid over the same dataset whose own rules differ
                            src_ = e_t if case.get("layout") == "x-first-float32" else e_in
                            check_lazy(rec, "simple-grid", dict(case, grid="alt-rules"), lambda: call(galt, op, src_.chunk(chunks), axis, kw),
                                       lambda: call(galt, op, src_, axis, kw), refuse, anych)


# ---------------------------------------------------------------------- (B) faces
def grid_B():
    from xgcm import Grid

    N = 2
    ds = xr.Dataset(coords={"x": ("x", np.arange(N)), "xl": ("xl", np.arange(N) - 0.5), "y": ("y", np.arange(N)),
                            "yl": ("yl", np.arange(N) - 0.5), "face": ("face", [0, 1]), "t": ("t", [0, 1])})
    fc = {"face": {0: {"X": (None, (1, "Y", False)), "Y": ((1, "Y", False), None)},
                   1: {"Y": ((0, "X", False), (0, "Y", False))}}}
    with warnings.catch_warnings():
        warnings.simplefilter("ignore")
        return Grid(ds, coords={"X": {"center": "x", "left": "xl"}, "Y": {"center": "y", "left": "yl"}},
                    face_connections=fc, periodic=False, boundary="fill", fill_value=0.0, autoparse_metadata=False)


def part_B(rec, tier, seed, only=None):
    g = grid_B()
    N = 2
    base = (np.arange(2 * 2 * N * N, dtype=float).reshape(2, 2, N, N) + 1 + seed % 3)
    s = xr.DataArray(base, dims=["t", "face", "y", "x"], name="s")
    u = xr.DataArray(base * 10 + 0.25, dims=["t", "face", "y", "xl"], name="u")
    v = xr.DataArray(-(base * 100 + 0.5), dims=["t", "face", "yl", "x"], name="v")
    for ct in compositions(2):
        for cf in compositions(2):
            ch = {"t": ct, "face": cf}
            for kind in ("scalar", "vecX", "vecY", "vecX-eager-partner"):
                for op in ("diff", "interp"):
                    for axis in (("X", "Y") if kind == "scalar" else ("own",)):
                        case = dict(part="B", ct=list(ct), cf=list(cf), kind=kind, op=op, axis=axis)
                        if only is not None and only != case:
                            continue
                        if kind == "scalar":
                            build = lambda: getattr(g, op)(s.chunk(ch), axis, to="left", boundary="extend")
                            eager = lambda: getattr(g, op)(s, axis, to="left", boundary="extend")
                        elif kind == "vecX":
                            build = lambda: getattr(g, op)({"X": u.chunk(ch)}, "X", other_component={"Y": v.chunk(ch)})
                            eager = lambda: getattr(g, op)({"X": u}, "X", other_component={"Y": v})
                        elif kind == "vecY":
                            build = lambda: getattr(g, op)({"Y": v.chunk(ch)}, "Y", other_component={"X": u.chunk(ch)})
                            eager = lambda: getattr(g, op)({"Y": v}, "Y", other_component={"X": u})
                        else:
                            build = lambda: getattr(g, op)({"X": u.chunk(ch)}, "X", other_component={"Y": v})
                            eager = lambda: getattr(g, op)({"X": u}, "X", other_component={"Y": v})
                        check_lazy(rec, "face-grid", case, build, eager, False, len(ct) > 1 or len(cf) > 1, threads=True)


# ---------------------------------------------------------------------- (C) schedules
def sched_cases(tier):
    N = BOUNDS[tier]["N"]
    cases = []
    for fr, to in S.SHIFTS:
        io = "inner" in (fr, to) or "outer" in (fr, to)
        m = S.pos_len(fr, N)
        cx = (m,) if io else ((2, m - 2) if m > 2 else (1, 1))
        for op in ("diff", "min", "cumsum"):
            cases.append(dict(part="C", fr=fr, to=to, op=op, cx=list(cx), ct=[1, 1], cy=[1, 1]))
    for fr, to in (("center", "left"), ("center", "right"), ("left", "center"), ("right", "center")):
        m = S.pos_len(fr, N)
        for pair in ("diff+interp", "diff+min", "interp+max"):
            cases.append(dict(part="C", fr=fr, to=to, op=pair, cx=[2, m - 2] if m > 2 else [1, 1], ct=[1, 1], cy=[2]))
    cases.append(dict(part="C", fr="center", to="left", op="ufunc-mo", cx=[1, 2, 1] if N == 4 else [2, 2, 1], ct=[1, 1], cy=[2]))
    cases.append(dict(part="C", fr="center", to="left", op="interp-xy", cx=[2, N - 2], ct=[2], cy=[1, 1]))
    return cases


def part_C(rec, tier, seed, case):
    N = BOUNDS[tier]["N"]
    g = grid_A(N)
    fr, to, op = case["fr"], case["to"], case["op"]
    e_in = data_A(N, fr, seed)
    chunks = {"t": tuple(case["ct"]), "yc": tuple(case["cy"]), POSD[fr]: tuple(case["cx"])}
    with warnings.catch_warnings():
        warnings.simplefilter("ignore")
        if op == "ufunc-mo":
            r, ee = call_ufunc(g, e_in.chunk(chunks), True), call_ufunc(g, e_in, False)
        elif op == "interp-xy":
            kw = dict(to="left", boundary="fill", fill_value=2.0)
            r, ee = g.interp(e_in.chunk(chunks), ["X", "Y"], **kw), g.interp(e_in, ["X", "Y"], **kw)
        elif "+" in op:
            # two different operations on the same lazy variable, computed together: one graph, every task order
            import dask.array as dsa

            lz = e_in.chunk(chunks)
            pr = [(call(g, o_, lz, "X", dict(to=to)), call(g, o_, e_in, "X", dict(to=to))) for o_ in op.split("+")]
            r = xr.DataArray(dsa.stack([a.data for a, _ in pr]))
            ee = xr.DataArray(np.stack([b.values for _, b in pr]))
        else:
            r, ee = call(g, op, e_in.chunk(chunks), "X", dict(to=to)), call(g, op, e_in, "X", dict(to=to))
    G = Graph(r.data)
    expect = ee.values

    def run():
        out = G.run()
        return "equal" if (out.shape == expect.shape and np.array_equal(out, expect, equal_nan=True)) else "differs"

    res = explorer.explore(run, bound=BOUNDS[tier]["deviations"], max_exec=40000)
    rec.case(tuple(sorted(case.items(), key=str)), True, sample=dict(case, tasks=G.ntasks, schedules=res["executions"]), calls=res["executions"])
    rec.transitions += res["choice_points"] + res["executions"] * G.ntasks
    rec.traces += res["executions"]
    rec.counters["schedules_explored"] += res["executions"]
    rec.counters["graph_tasks"] += G.ntasks
    if res["capped"]:
        rec.cap_hit = True
    for o, traces in res["outcomes"].items():
        rec.state((tuple(sorted(case.items(), key=str)), o))
        rec.outcomes["schedule-" + o] += len(traces)
    if "differs" in res["outcomes"]:
        tr = min(res["outcomes"]["differs"], key=lambda t: (sum(1 for c in t if c), len(t)))
        rec.violation("schedules", f"task-order-changes-result:{op}", dict(case, schedule=list(tr)), "eager result under every task order",
                      f"{len(res['outcomes']['differs'])} of {res['executions']} schedules differ", cost=sum(1 for c in tr if c))


def shards(tier, seed):
    sh = [("A", fr, to) for fr, to in S.SHIFTS]
    sh.append(("B",))
    sh += [("C", i) for i in range(len(sched_cases(tier)))]
    return sh


def run_shard(shard, tier, seed, rec):
    if shard[0] == "A":
        part_A(rec, tier, seed, shard[1], shard[2])
    elif shard[0] == "B":
        part_B(rec, tier, seed)
    else:
        part_C(rec, tier, seed, sched_cases(tier)[shard[1]])


def replay_case(case, seed, rec):
    case = dict(case)
    p = case.get("part")
    if p == "A":
        for tier in ("quick", "thorough"):
            part_A(rec, tier, seed, case["fr"], case["to"], only=case)
            if rec.viol:
                return
    elif p == "B":
        part_B(rec, "quick", seed, only=case)
    else:
        case.pop("schedule", None)
        for tier in ("quick", "thorough"):
            if case in sched_cases(tier):
                part_C(rec, tier, seed, case)
                return
