"""C16  The metric registry reflects exactly what was registered, in any batching.

Explicit-state breadth-first search over registration histories.  A state is the registry as
seen through the public API only (get_metric probes at every slot: occupant or interpolated
answer); each transition rebuilds a real Grid by replaying the history and applies one real
set_metrics call (or the constructor's metrics=).  Oracle: a dict reference model, the
batch == one-at-a-time differential, and C10's admissible-answer set in every reached state.
"""
import hashlib
import itertools
import warnings

import numpy as np
import xarray as xr

from ..core import exc_sig, h64
from ..ref import metrics as M
from ..ref import simple as S

PID = "C16"
LEVEL = "model_checking"
TECHNIQUE = "explicit-state BFS over registration histories on the real Grid (state = registry read through get_metric probes), dict reference model + batch/sequential differential on every transition"
RULE = (
    "state = (slot occupancy, get_metric answers at every slot) read through the public API; transition = one real "
    "set_metrics / constructor call on a Grid rebuilt by replaying the history; non-trivial = a transition that writes "
    "into an occupied slot or registers >= 2 variables at once"
)
SPACE = {
    "quick": "pool: axis set {X} at 2 positions x 2 variables, {Y} at 1 position x 2 variables (so {X,Y} can be answered by a product), {X,Y} at 3 positions (two sharing one axis' position each, two using the same position words crosswise) x 2 variables; the registry is read through get_metric (at every pool position and at three positions no variable sits at) on the same object before and after every call; actions: every list of 1-3 variables at pairwise different positions in every order x overwrite T/F (+ constructor metrics= as first action); BFS to depth 3, key spellings str/tuple/list rotating",
    "thorough": "{X} at 3 positions (the rest as quick); BFS to depth 3",
}
BOUNDS = {"quick": {"depth": 3}, "thorough": {"depth": 3}}
ASSUMPTIONS = [
    "states are identified through get_metric only; two variables per slot carry distinct prime labels so the occupant is identified exactly",
    "a batch containing a refused element must raise, leave the refused slot unchanged, leave the variables listed before it registered and those listed after it unregistered (as one call per variable, stopping at the refusal, would)",
    "histories are compared with their one-at-a-time equivalent in the same order; different registration orders are not required to agree on interpolated answers",
]

LAY = {"X": ("center", "left", "outer"), "Y": ("center", "left")}
NS = {"X": 2, "Y": 2}
MG = M.MGrid(LAY, NS)


def pool(tier):
    pit = iter(M.primes(400))
    vs = []
    for p in (LAY["X"] if tier == "thorough" else LAY["X"][:2]):
        for k in (1, 2):
            vs.append(MG.make_var(f"dx_{S.SHORT[p]}{k}", ("X",), {"X": p}, pit))
    # a block for Y alone, so that {X,Y} requests can be answered by a product of blocks
    for k in (1, 2):
        vs.append(MG.make_var(f"dy_c{k}", ("Y",), {"Y": "center"}, pit))
    # (center,center) / (left,center) share Y's position, (center,center) / (center,left) share X's, and
    # (left,center) / (center,left) use the same position words crosswise: three different slots
    pairs = [("center", "center"), ("left", "center"), ("center", "left")]
    for px, py in pairs:
        for k in (1, 2):
            # the second variable of a slot stores its dimensions in the other order: same position, same slot
            posn = {"X": px, "Y": py} if k == 1 else {"Y": py, "X": px}
            vs.append(MG.make_var(f"a_{S.SHORT[px]}{S.SHORT[py]}{k}", ("X", "Y"), posn, pit))
    return vs


def slot_of(v):
    return (frozenset(v.axes), tuple(sorted(v.dims)))


_P = {}


def ctx(tier):
    if tier not in _P:
        vs = pool(tier)
        byname = {v.name: v for v in vs}
        slots = sorted({slot_of(v) for v in vs}, key=lambda s: (sorted(s[0]), s[1]))
        # positions no pool variable sits at: what get_metric answers there (an interpolated variable) shows which
        # variables the registry really holds, and in which order
        extra = [(frozenset({"X"}), (S.dimname("X", "outer"),)), (frozenset({"Y"}), (S.dimname("Y", "left"),)),
                 (frozenset({"X", "Y"}), tuple(sorted((S.dimname("X", "left"), S.dimname("Y", "left")))))]
        slots += [e for e in extra if e not in slots]
        ds = MG.dataset(vs)
        acts = []
        for axes in (("X",), ("Y",), ("X", "Y")):
            mine = [v for v in vs if v.axes == axes]
            myslots = sorted({slot_of(v)[1] for v in mine})
            for k in (1, 2, 3):
                for sl in itertools.combinations(myslots, k):
                    for choice in itertools.product(*[[v for v in mine if slot_of(v)[1] == s] for s in sl]):
                        perms = list(itertools.permutations(choice))
                        if tier == "quick" and k == 3:
                            perms = [perms[0], perms[-1], perms[2]][: 2 + (len(acts) % 2)]  # three-variable calls: 2-3 of the 6 orders
                        for perm in perms:
                            for ow in (False, True):
                                acts.append((axes, tuple(v.name for v in perm), ow))
        spell = {("X",): ["X", ("X",), ["X"]], ("Y",): ["Y", ["Y"], ("Y",)], ("X", "Y"): [("X", "Y"), ["Y", "X"], ("Y", "X")]}
        actions = []
        for i, (axes, names, ow) in enumerate(acts):
            key = spell[axes][i % 3]
            actions.append(dict(k=key if isinstance(key, str) else list(key), v=list(names), ow=ow))
        # a registration naming a variable the dataset does not have: refused, and nothing changes
        for axes in (("X",), ("Y",), ("X", "Y")):
            for ow in (False, True):
                actions.append(dict(k=list(axes), v=["no_such_variable"], ow=ow, unknown=True))
                # ... also when a variable the dataset does have is listed before it: names are checked before anything
                # is registered
                first = next(v.name for v in vs if v.axes == axes)
                actions.append(dict(k=list(axes), v=[first, "no_such_variable"], ow=ow, unknown=True))
        _P[tier] = dict(vars=vs, byname=byname, slots=slots, ds=ds, actions=actions)
    return _P[tier]


def new_grid(c, metrics=None):
    from xgcm import Grid

    with warnings.catch_warnings():
        warnings.simplefilter("ignore")
        return Grid(c["ds"], coords=S.grid_coords(LAY), periodic=False, autoparse_metadata=False, metrics=metrics)


def key_of(k):
    return k if isinstance(k, str) else tuple(k)


def apply_action(c, g, act):
    """returns (grid, None) or (grid, exception).  A constructor action builds the grid."""
    try:
        if act.get("ctor") and "k2" in act:
            # first variable under the first spelling, second variable under the second spelling
            g = new_grid(c, metrics={key_of(act["k"]): [act["v"][0]], key_of(act["k2"]): [act["v"][1]]})
        elif act.get("ctor"):
            g = new_grid(c, metrics={key_of(act["k"]): list(act["v"])})
        else:
            g.set_metrics(key_of(act["k"]) if not isinstance(act["k"], list) else list(act["k"]), list(act["v"]) if len(act["v"]) > 1 or act.get("aslist") else act["v"][0], overwrite=act["ow"])
        return g, None
    except Exception as e:
        return g, e


def rebuild(c, history):
    g = None
    for act in history:
        if act.get("ctor"):
            g, e = apply_action(c, None, act)
            if g is None:
                g = new_grid(c)
        else:
            if g is None:
                g = new_grid(c)
            g, e = apply_action(c, g, act)
    if g is None:
        g = new_grid(c)
    return g


def read_state(c, g):
    """(occupancy {slot index: name|None|'?'}, answers tuple) through get_metric only"""
    occ, answers, info = {}, [], []
    for si, (axes, dims) in enumerate(c["slots"]):
        probe = xr.DataArray(np.zeros(tuple(MG.size(d) for d in dims)), dims=dims)
        with warnings.catch_warnings(record=True) as w:
            warnings.simplefilter("always")
            try:
                got = g.get_metric(probe, tuple(sorted(axes)))
                err = None
            except Exception as e:
                got, err = None, e
        warned = any(not issubclass(x.category, (DeprecationWarning, FutureWarning, PendingDeprecationWarning)) for x in w)
        if err is not None:
            occ[si] = None
            answers.append("raise:" + type(err).__name__)
            info.append((None, False, err))
            continue
        name = None
        if not warned:
            for v in c["vars"]:
                if slot_of(v) == (axes, dims) and set(got.dims) == set(dims):
                    if np.array_equal(got.transpose(*v.dims).values, v.values):
                        name = v.name
            # no variable of this slot: the answer is a product of blocks registered at this
            # position (slot empty); its admissibility is judged below against C10's oracle
        occ[si] = name
        try:
            vals = np.asarray(got.transpose(*dims).values if set(got.dims) == set(dims) else got.values, dtype=float)
            answers.append(("w" if warned else "v") + hashlib.blake2b(np.round(vals, 9).tobytes(), digest_size=6).hexdigest() + str(tuple(got.dims)))
        except Exception:
            answers.append("unreadable")
        info.append((got, warned, None))
    return occ, tuple(answers), info


def registry_of(c, occ):
    reg = {}
    for si, name in occ.items():
        if name and name != "?":
            axes, dims = c["slots"][si]
            reg.setdefault(axes, []).append(c["byname"][name])
    return reg


def check_admissible(c, rec, occ, info, case):
    reg = registry_of(c, occ)
    for si, (axes, dims) in enumerate(c["slots"]):
        got, warned, err = info[si]
        kind, cands = M.admissible(MG, reg, dims, tuple(sorted(axes)))
        if kind == "any":
            continue
        if kind == "raise":
            if err is None:
                rec.violation("answers", "returned-with-nothing-registered", dict(case, slot=si), "raise", "returned")
                return False
            continue
        if err is not None:
            rec.violation("answers", "raise:" + exc_sig(err), dict(case, slot=si), [l for _, _, l in cands], f"{type(err).__name__}: {err}"[:160])
            return False
        i = M.match(got, cands)
        if i is None:
            rec.violation("answers", "not-admissible", dict(case, slot=si), [l for _, _, l in cands], got.values)
            return False
        if cands[i][1] and not warned:
            rec.violation("answers", "missing-warning", dict(case, slot=si), "warning", "none")
            return False
    return True


def slot_index(c, name):
    v = c["byname"][name]
    return c["slots"].index(slot_of(v))


def expected(c, occ, act):
    seq = dict(occ)
    refused = []
    for name in act["v"]:
        si = slot_index(c, name)
        if seq[si] is None or act["ow"]:
            seq[si] = name
        else:
            refused.append(si)
    return seq, refused


def check_transition(c, rec, history, act, occ0, tier, ans0=None):
    case = dict(tier=tier, history=history, action=act)
    g = rebuild(c, history)
    ans_pre = ans0
    if not act.get("ctor") and (ans0 is None or tier != "quick" or h64(repr(act)) % 2 == 0):
        # the registry is also *read* on this very object before the call (quick: before every second action):
        # what get_metric answered earlier must not influence what it answers after the registration
        occ_pre, ans_pre, _ = read_state(c, g)
        if occ_pre != occ0 or (ans0 is not None and ans_pre != ans0):
            rec.violation("registry", "state-differs-between-two-rebuilds", case, names(c, occ0), names(c, occ_pre))
            return None
    g, err = apply_action(c, g, act)
    occ2, ans2, info2 = read_state(c, g)
    rec.transitions += 1
    rec.traces += 1
    # registering (or displacing) a variable never changes the dataset the Grid was built on
    for v in c["vars"]:
        if not np.array_equal(c["ds"][v.name].values, v.values):
            rec.violation("registry", "dataset-variable-overwritten", case, v.values, c["ds"][v.name].values)
            c["ds"][v.name].values[...] = v.values  # (restored: the dataset is shared by every history of this process)
            return None
    if act.get("unknown"):
        rec.case((history, act), True, sample=case, calls=len(history) + 1 + 2 * len(c["slots"]))
        if err is None:
            rec.violation("registry", "unknown-variable-not-refused", case, "raise", names(c, occ2))
            return None
        if occ2 != occ0 or ans2 != ans_pre:
            rec.violation("registry", "refused-registration-changed-the-registry", case, [names(c, occ0), ans_pre], [names(c, occ2), ans2])
            return None
        return occ2, ans2
    seq, refused = expected(c, occ0, act)
    if not act.get("ctor") and act["ow"] and all(occ0[slot_index(c, n)] == n for n in act["v"]):
        # every named variable already holds its slot: the registry is what it was, and so is every answer
        if err is None and occ2 == occ0 and ans2 != ans_pre:
            rec.violation("registry", "re-registering-the-occupant-changes-answers", case, ans_pre, ans2)
            return None
    writes_occupied = any(occ0[slot_index(c, n)] is not None for n in act["v"])
    rec.case((history, act), writes_occupied or len(act["v"]) > 1, sample=case, calls=len(history) + 1 + len(c["slots"]))
    ok = True
    if "?" in occ2.values():
        rec.violation("registry", "unidentified-occupant", case, seq, occ2)
        return None
    if not refused:
        if err is not None:
            rec.violation("registry", "raised-unexpectedly:" + exc_sig(err), case, "returns", f"{type(err).__name__}: {err}"[:200])
            ok = False
        elif occ2 != seq:
            n_lost = sum(1 for si in seq if seq[si] != occ2[si])
            cls = "batch-partially-registered" if len(act["v"]) > 1 else "single-registration-wrong"
            rec.violation("registry", cls, case, names(c, seq), names(c, occ2))
            ok = False
    else:
        if err is None:
            rec.violation("registry", "occupied-slot-not-refused", case, "raise", names(c, occ2))
            ok = False
        else:
            first_refused = min(i for i, n in enumerate(act["v"]) if slot_index(c, n) in refused)
            before = {slot_index(c, n) for n in act["v"][:first_refused]}
            after = {slot_index(c, n) for n in act["v"][first_refused + 1:]} - before
            for si in seq:
                if si in after and si not in refused and occ2[si] != occ0[si]:
                    # ... and the call ends at the refusal: what is listed after it is not registered
                    rec.violation("batching", "refused-batch-registers-later-variables", case, names(c, occ0), names(c, occ2))
                    ok = False
                    break
                if si in before and si not in refused and occ2[si] != seq[si]:
                    # one at a time, in the same order, the variables listed before the refused one are registered
                    rec.violation("batching", "refused-batch-drops-earlier-variables", case, names(c, seq), names(c, occ2))
                    ok = False
                    break
                if si in refused:
                    if occ2[si] != occ0[si]:
                        rec.violation("registry", "refused-slot-changed", case, names(c, occ0), names(c, occ2))
                        ok = False
                        break
                elif occ2[si] not in (occ0[si], seq[si]):
                    rec.violation("registry", "refused-batch-corrupts-other-slot", case, names(c, seq), names(c, occ2))
                    ok = False
                    break
    if not ok:
        return None
    # batch == one at a time, same order
    if len(act["v"]) > 1 and not refused and not act.get("ctor"):
        g3 = rebuild(c, history)
        for name in act["v"]:
            g3, e3 = apply_action(c, g3, dict(k=act["k"], v=[name], ow=act["ow"]))
            if e3 is not None:
                rec.violation("batching", "single-raised:" + exc_sig(e3), case, "returns", str(e3)[:160])
                return None
        occ3, ans3, _ = read_state(c, g3)
        rec.calls += len(history) + len(act["v"]) + len(c["slots"])
        if (occ3, ans3) != (occ2, ans2):
            rec.violation("batching", "batch-differs-from-one-at-a-time", case, [names(c, occ3), ans3], [names(c, occ2), ans2])
            return None
    if not check_admissible(c, rec, occ2, info2, case):
        return None
    return occ2, ans2


def names(c, occ):
    return {str(c["slots"][si][1]): n for si, n in occ.items()}


def state_key(occ, ans):
    return repr((sorted(occ.items()), ans))


def first_actions(c):
    acts = [dict(a) for a in c["actions"]]
    ctor = []
    for a in c["actions"]:
        if not a["ow"] and not a.get("unknown"):
            ctor.append(dict(k=a["k"] if not isinstance(a["k"], str) else a["k"], v=a["v"], ow=False, ctor=True))
    # metrics= with two differently spelled keys for the same axis set: both entries count, in order
    for a in c["actions"]:
        if a["ow"] or len(a["v"]) != 2 or a.get("unknown"):
            continue
        k1 = a["k"]
        k2 = list(reversed(k1)) if isinstance(k1, list) and len(k1) == 2 else ([k1] if isinstance(k1, str) else k1[0])
        if k2 == k1:
            continue
        ctor.append(dict(k=k1, v=a["v"], ow=False, ctor=True, k2=k2))
    return acts + ctor


def expand(c, rec, history, tier, depth_left):
    g = rebuild(c, history)
    occ0, ans0, info0 = read_state(c, g)
    rec.state(state_key(occ0, ans0))
    acts = first_actions(c) if not history else c["actions"]
    for act in acts:
        res = check_transition(c, rec, history, act, occ0, tier, ans0)
        if res is None:
            continue
        k = state_key(*res)
        rec.state(k)
        if depth_left > 1:
            rec.push(k, history + [act])


def shards(tier, seed):
    return [("expand", [], BOUNDS[tier]["depth"])]


_SEEN = set()


def next_round(total, tier, seed, rnd):
    depth = BOUNDS[tier]["depth"]
    if rnd >= depth:
        return []
    global _SEEN
    new = []
    for k, h in sorted(total.frontier.items()):
        if k in _SEEN or len(h) != rnd:
            continue
        _SEEN.add(k)
        new.append(("expand", h, depth - rnd))
    return new


def run_shard(shard, tier, seed, rec):
    _, history, depth_left = shard
    expand(ctx(tier), rec, history, tier, depth_left)


def finalize(total, tier, seed):
    return dict(bfs_depth=BOUNDS[tier]["depth"], frontier_states=len(total.frontier), actions_per_state=len(ctx(tier)["actions"]))


def replay_case(case, seed, rec):
    tier = case.get("tier", "quick")
    c = ctx(tier)
    history = case["history"]
    g = rebuild(c, history)
    occ0, _, _ = read_state(c, g)
    check_transition(c, rec, history, case["action"], occ0, tier)
