"""C01  Staggered stencil operators (diff, interp, min, max) are exact on simple grids.

Every axis layout x cell count x shift x operator x boundary rule x way of supplying the rule
is enumerated; the oracle is a coordinate stencil model (xmc.ref.simple) that knows nothing of
the 32 predefined ufuncs.  Data are stacked basis vectors + order-type rows, so one call
extracts the whole operator (DESIGN section 4).
"""
import itertools
import warnings

import numpy as np
import xarray as xr

from ..core import exc_sig
from ..ref import simple as S

PID = "C01"
LEVEL = "exploration"
TECHNIQUE = "bounded exhaustive enumeration of (layout x n x shift x op x rule x supply x dim order x axis order) against a coordinate stencil model; operator matrix extracted with basis vectors"
RULE = (
    "case = (part, layout(s), n, from, to, op, rule, fill value, supply route, dims); non-trivial = an output cell "
    "depends on a rule-supplied value (the shift pads) or n >= 3"
)
SPACE = {
    "quick": "(a) 16 layouts x n in {2,3,4,5} x valid shifts x 4 ops x 5 rules x supply routes, `to` explicit and omitted; (b) 17 dim arrangements x 8 shifts x 4 ops x 2 rules; (c) every ordered selection of 2 and 3 axes x shift combos from center x 4 ops x 3 rule sets",
    "thorough": "(a) n in {2..7}; (b) same with n=3; (c) all shift combos from every start position",
}
BOUNDS = {"quick": {"n": [2, 3, 4, 5]}, "thorough": {"n": [2, 3, 4, 5, 6, 7]}}
ASSUMPTIONS = [
    "linear ops: basis rows give the exact operator matrix, a generic row checks linearity; min/max: rows cover every order type of (left, right, fill)",
    "small integers / dyadic values in float64 so comparisons are exact equality",
    "NaN/inf outside the alphabet",
]

OPS = ("diff", "interp", "min", "max")
RULES = (("periodic", 0.0), ("fill", 0.0), ("fill", -7.0), ("fill", 2.5), ("extend", 0.0))
PADS = {("center", "left"), ("center", "right"), ("center", "outer"), ("left", "center"), ("right", "center"), ("inner", "center")}


def rows(m, seed):
    r = [np.eye(m), np.zeros((1, m)), (np.arange(m) * 3.0 - 2)[None, :], (np.arange(m)[::-1] * 2.0 - 1)[None, :],
         np.ones((1, m)), ((-1.0) ** np.arange(m) * (np.arange(m) + 1 + seed % 3))[None, :],
         # wide dynamic range: an implementation that obtains a value by cancelling large terms loses it
         np.resize(np.array([1.0, 1e20, -1e20, 3.0, 0.5, 3e17, -3e17, 2.0]), m)[None, :]]
    return np.vstack(r)


def build_grid(layouts, ns, gkw, extra=None):
    from xgcm import Grid

    ds = S.make_ds(layouts, ns, extra)
    with warnings.catch_warnings():
        warnings.simplefilter("ignore")
        return Grid(ds, coords=S.grid_coords(layouts), autoparse_metadata=False, **gkw)


_SHARED_OTHER = {"extend": {"Y": "extend"}, "fill": {"Y": "fill"}, "fv": {"Y": 99.0}}


def reset():
    """(replay) the shared mappings as they were when the process started"""
    for k, v in (("extend", {"Y": "extend"}), ("fill", {"Y": "fill"}), ("fv", {"Y": 99.0})):
        _SHARED_OTHER[k].clear()
        _SHARED_OTHER[k].update(v)


def supply_kwargs(ax, rule, fv, supply, axes=("X",)):
    """returns (grid kwargs, call kwargs) realising rule/fv for axis ax by the given route"""
    decoy_rule = "extend" if rule != "extend" else "fill"
    if supply == "call":
        return dict(periodic=False, boundary=decoy_rule, fill_value=99.0), dict(boundary=rule, fill_value=fv)
    if supply == "callmap":
        return dict(periodic=False, boundary=decoy_rule, fill_value=99.0), dict(boundary={ax: rule}, fill_value={ax: fv})
    if supply == "grid":
        return dict(periodic=False, boundary=rule, fill_value=fv), {}
    if supply == "gridmap":
        return dict(periodic=False, boundary={a: (rule if a == ax else decoy_rule) for a in axes},
                    fill_value={a: (fv if a == ax else 99.0) for a in axes}), {}
    if supply == "grid+othermap":
        # Grid-level setting for the operated axis; the per-call mappings name only *another* axis of the grid.  They are
        # the same two objects for every Grid of this process (a caller's settings re-used with several grids): whatever a
        # call does with them must not reach the next Grid
        return dict(periodic=False, boundary=rule, fill_value=fv), dict(boundary=_SHARED_OTHER[decoy_rule], fill_value=_SHARED_OTHER["fv"])
    if supply == "gridrule+callfv":
        # the rule comes from the Grid, the call gives only a fill value (inert unless the rule is fill)
        return dict(periodic=False, boundary=rule, fill_value=99.0), dict(fill_value=fv)
    if supply == "gridrule+callfvmap":
        return dict(periodic=False, boundary=rule, fill_value=99.0), dict(fill_value={ax: fv})
    if supply == "gridfv+callrule":
        # the fill value comes from the Grid, the call gives only the rule
        return dict(periodic=False, boundary=decoy_rule, fill_value=fv), dict(boundary=rule)
    if supply == "default+callfv":
        assert rule == "periodic"
        return dict(periodic=True), dict(fill_value=5.0)
    if supply == "default":
        assert (rule, fv) in (("periodic", 0.0), ("fill", 0.0))
        return dict(periodic=(rule == "periodic")), {}
    raise ValueError(supply)


def supplies_for(rule, fv):
    s = ["call", "callmap", "grid", "gridmap", "grid+othermap", "gridrule+callfv", "gridrule+callfvmap", "gridfv+callrule"]
    if rule == "periodic":
        s.append("default+callfv")
    if (rule, fv) in (("periodic", 0.0), ("fill", 0.0)):
        s.append("default")
    return s


def compare(rec, sub, case, r, exp, expdims):
    if tuple(r.dims) != tuple(expdims):
        rec.violation(sub, "dims", case, list(expdims), list(r.dims))
        return False
    if r.shape != exp.shape:
        rec.violation(sub, "shape", case, list(exp.shape), list(r.shape))
        return False
    if not np.array_equal(np.asarray(r.values, dtype=float), exp):
        rec.violation(sub, "values", case, exp, r.values)
        return False
    return True


# ---------------------------------------------------------------- part (a)
AXSPELL = (lambda: "X", lambda: ["X"], lambda: ("X",), lambda: iter(["X"]), lambda: (a for a in ("X",)), lambda: {"X": None}.keys())
# a single axis may be given as str, list, tuple or any other iterable of names (also one that can be walked only once)


def part_a(rec, li, n, seed, only=None):
    layout = S.LAYOUTS[li]
    for fr, to in S.SHIFTS:
        if fr not in layout or to not in layout:
            continue
        m = S.pos_len(fr, n)
        if m < 1:
            continue
        base0 = rows(m, seed)
        ncall = 0
        for rule, fv in RULES:
            for supply in supplies_for(rule, fv):
                gkw, ckw = supply_kwargs("X", rule, fv, supply)
                g = None
                for op in OPS:
                    for omit in (False, True):
                        if omit and S.default_shift(layout, fr) != to:
                            continue
                        case = dict(part="a", li=li, n=n, fr=fr, to=to, rule=rule, fv=fv, supply=supply, op=op, omit=omit)
                        if only is not None and only != case:
                            continue
                        base = base0
                        # consecutive calls on one Grid never carry the same values (1x, 2x, 3x: still exact)
                        ncall += 1
                        scale = float(1 + ncall % 3)
                        base = base0 * scale
                        da = xr.DataArray(base.copy(), dims=["b", S.dimname("X", fr)])
                        if supply == "callmap":
                            # a read-only, non-contiguous view as input (every second element of a wider buffer)
                            wide = np.repeat(base, 2, axis=1)
                            wide[:, 1::2] = -777.0
                            view = wide[:, ::2]
                            view.setflags(write=False)
                            da = xr.DataArray(view, dims=["b", S.dimname("X", fr)])
                        if g is None:
                            if supply == "grid+othermap":
                                g = build_grid({"X": layout, "Y": ("center", "left")}, {"X": n, "Y": 2}, gkw)
                            else:
                                g = build_grid({"X": layout}, {"X": n}, gkw)
                            if supply in ("grid", "gridmap", "default", "grid+othermap"):
                                # an earlier call with other per-call settings must not change what
                                # the Grid-level settings mean for later calls
                                try:
                                    g.interp(da, "X", to=to, boundary="extend" if rule != "extend" else "fill", fill_value=77.0)
                                except Exception:
                                    pass
                        kw = dict(ckw)
                        if not omit:
                            kw["to"] = to
                        rec.case(("a", li, n, fr, to, rule, fv, supply, op, omit), (fr, to) in PADS or n >= 3, sample=case)
                        try:
                            r = getattr(g, op)(da, AXSPELL[(li + n + len(op)) % 6](), **kw)
                            if not np.array_equal(da.values, base):
                                rec.violation("single-axis", "input-array-modified", case, base, da.values)
                                continue
                        except Exception as e:
                            rec.violation("single-axis", "raise:" + exc_sig(e), case, "array", f"{type(e).__name__}: {e}"[:200])
                            continue
                        exp = S.ref_stencil(base, fr, to, n, op, rule, fv)
                        if compare(rec, "single-axis", case, r, exp, ("b", S.dimname("X", to))) and supply == "call" and not omit:
                            # the same in single precision (small integers and halves are exact there too)
                            try:
                                # (without the wide-dynamic-range row, which single precision cannot hold)
                                r32 = getattr(g, op)(da.isel(b=slice(0, -1)).astype(np.float32), "X", **kw)
                                rec.calls += 1
                                if r32.dims != r.dims or not np.array_equal(np.asarray(r32.values, dtype=float), exp[:-1]):
                                    rec.violation("single-axis", "values:float32", dict(case, dtype="float32"), exp, r32.values)
                            except Exception as e:
                                rec.violation("single-axis", "raise:float32:" + exc_sig(e), dict(case, dtype="float32"), "array", f"{type(e).__name__}: {e}"[:200])
                            # the same values held in integer dtypes (all rows but the wide-range one are integral;
                            # a fill value that is not integral cannot be represented there and is not asked for)
                            if float(fv).is_integer():
                                for idt in (np.int64, np.int32):
                                    try:
                                        ri_ = getattr(g, op)(da.isel(b=slice(0, -1)).astype(idt), "X", **kw)
                                        rec.calls += 1
                                        if ri_.dims != r.dims or not np.array_equal(np.asarray(ri_.values, dtype=float), exp[:-1]):
                                            rec.violation("single-axis", f"values:{np.dtype(idt).name}", dict(case, dtype=np.dtype(idt).name), exp[:-1], ri_.values)
                                            break
                                    except Exception as e:
                                        rec.violation("single-axis", f"raise:{np.dtype(idt).name}:" + exc_sig(e), dict(case, dtype=np.dtype(idt).name), "array", f"{type(e).__name__}: {e}"[:200])
                                        break
                                if op in ("min", "max") and fv >= 0:
                                    # unsigned integers with zeros next to non-zero values
                                    u_ = (np.abs(base[:-1]) % 200).astype(np.uint8)
                                    u_[:, ::2] = 0
                                    try:
                                        ru_ = getattr(g, op)(xr.DataArray(u_, dims=da.dims), "X", **kw)
                                        rec.calls += 1
                                        eu_ = S.ref_stencil(u_.astype(float), fr, to, n, op, rule, fv)
                                        if not np.array_equal(np.asarray(ru_.values, dtype=float), eu_):
                                            rec.violation("single-axis", "values:uint8", dict(case, dtype="uint8"), eu_, ru_.values)
                                    except Exception as e:
                                        rec.violation("single-axis", "raise:uint8:" + exc_sig(e), dict(case, dtype="uint8"), "array", f"{type(e).__name__}: {e}"[:200])
                                if op != "interp":
                                    # 64-bit integers beyond 2**53: differences, minima and maxima are exact, not merely to double precision
                                    big_ = (np.arange(2 * m, dtype=np.int64).reshape(2, m) * 2 + 2 ** 55 + 1) * np.array([[1], [-1]], dtype=np.int64)
                                    big_[:, ::2] += 5
                                    try:
                                        rb_ = getattr(g, op)(xr.DataArray(big_, dims=da.dims), "X", **kw)
                                        rec.calls += 1
                                        eb_ = S.ref_stencil(big_.astype(object), fr, to, n, op, rule, int(fv))
                                        if [int(x) for x in np.asarray(rb_.values).ravel()] != [int(x) for x in eb_.ravel()]:
                                            rec.violation("single-axis", "values:int64-beyond-2**53", dict(case, dtype="int64-large"), eb_.astype(float), rb_.values)
                                    except Exception as e:
                                        rec.violation("single-axis", "raise:int64-large:" + exc_sig(e), dict(case, dtype="int64-large"), "array", f"{type(e).__name__}: {e}"[:200])


# ---------------------------------------------------------------- part (b)
def arrangements():
    out = []
    for extras in ((), (("e1", 1),), (("e1", 2),), (("e1", 2), ("e2", 1)), (("e1", 1), ("e2", 2))):
        k = len(extras)
        for perm in set(itertools.permutations(range(k))):
            ex = [extras[i] for i in perm]
            for pos in range(k + 1):
                out.append((tuple(ex), pos))
    return sorted(set(out))


def part_b(rec, si, tier, seed, only=None):
    fr, to = S.SHIFTS[si]
    n = 2 if tier == "quick" else 3
    layout = S.POS
    g = build_grid({"X": layout}, {"X": n}, dict(periodic=False))
    m = S.pos_len(fr, n)
    for ai, (extras, pos) in enumerate(arrangements()):
        dims = [d for d, _ in extras]
        shape = [s for _, s in extras]
        dims.insert(pos, S.dimname("X", fr))
        shape.insert(pos, m)
        a = (np.arange(int(np.prod(shape)), dtype=float).reshape(shape) * 2 + 1 + seed % 5) ** 2 % 37 - 9
        for op in OPS:
            for rule, fv in (("extend", 0.0), ("fill", -7.0)):
                case = dict(part="b", si=si, ai=ai, op=op, rule=rule, fv=fv)
                if only is not None and only != case:
                    continue
                da = xr.DataArray(a.copy(), dims=dims)
                rec.case(("b", si, ai, op, rule, fv, n), True, sample=dict(case, dims=dims, shape=shape))
                try:
                    r = getattr(g, op)(da, "X", to=to, boundary=rule, fill_value=fv)
                except Exception as e:
                    rec.violation("dim-order", "raise:" + exc_sig(e), case, "array", f"{type(e).__name__}: {e}"[:200])
                    continue
                exp = np.moveaxis(S.ref_stencil(np.moveaxis(a, pos, -1), fr, to, n, op, rule, fv), -1, pos)
                ed = list(dims)
                ed[pos] = S.dimname("X", to)
                compare(rec, "dim-order", case, r, exp, ed)


# ---------------------------------------------------------------- part (c)
ML = {"X": S.POS, "Y": ("center", "left", "outer"), "Z": ("center", "right", "inner")}
MN = {"X": 2, "Y": 3, "Z": 3}
# what g_partial resolves to: X extend (named), Y and Z fill (periodic=False), fill value 6 only on Z
GRID_LEVEL = dict(at="grid", boundary={"X": "extend", "Y": "fill", "Z": "fill"}, fill_value={"X": 0.0, "Y": 0.0, "Z": 6.0})
RULESETS = (
    dict(boundary="extend", fill_value=None),
    dict(boundary={"X": "fill", "Y": "extend", "Z": "periodic"}, fill_value={"X": -3.0, "Y": 1.0, "Z": 2.0}),
    dict(boundary="fill", fill_value={"X": 4.0, "Y": -5.0, "Z": 0.5}),
)


def axis_orders():
    out = []
    for k in (2, 3):
        out += list(itertools.permutations(("X", "Y", "Z"), k))
    return out


def part_c(rec, oi, tier, seed, only=None):
    order = axis_orders()[oi]
    g = build_grid(ML, MN, dict(periodic=False))
    # a Grid whose own settings are a *partial* mapping: the axes it does not name follow `periodic`
    g_partial = build_grid(ML, MN, dict(periodic=False, boundary={"X": "extend"}, fill_value={"Z": 6.0}))
    starts = [dict.fromkeys(("X", "Y", "Z"), "center")]
    if tier == "thorough":
        starts += [dict(X="left", Y="outer", Z="inner"), dict(X="outer", Y="left", Z="right"), dict(X="inner", Y="center", Z="center"), dict(X="right", Y="outer", Z="center")]
    for st_i, start in enumerate(starts):
        dims = ["t"] + [S.dimname(ax, start[ax]) for ax in ("Y", "X", "Z")]  # deliberately not the call order
        shape = [2] + [S.pos_len(start[ax], MN[ax]) for ax in ("Y", "X", "Z")]
        a = ((np.arange(int(np.prod(shape)), dtype=float) * 7 + 3 + seed % 4) % 23 - 6).reshape(shape)
        targets = []
        for ax in order:
            if start[ax] == "center":
                targets.append([p for p in ML[ax] if p != "center"])
            else:
                targets.append(["center"])
        for tos in itertools.product(*targets):
            for op in OPS:
                for ri, rs in enumerate(RULESETS + (GRID_LEVEL,)):
                    for tostyle in ("map", "scalar", "map-reversed"):
                        if tostyle == "scalar" and len(set(tos)) != 1:
                            continue
                        if tostyle == "map-reversed" and (ri != 2 or len(order) < 2):
                            continue
                        case = dict(part="c", oi=oi, st=st_i, tos=list(tos), op=op, ri=ri, tostyle=tostyle)
                        if only is not None and only != case:
                            continue
                        da = xr.DataArray(a.copy(), dims=dims)
                        to_kw = dict(zip(order, tos)) if tostyle == "map" else tos[0]
                        if tostyle == "map-reversed":
                            # the same mapping listed in another key order: the order of application is that of `axis`
                            to_kw = dict(reversed(list(zip(order, tos))))
                        kw = {k: (dict(v) if isinstance(v, dict) else v) for k, v in rs.items() if v is not None and k != "at"}
                        gg = g
                        if rs.get("at") == "grid":
                            gg, kw = g_partial, {}
                        rec.case(("c", oi, st_i, tos, op, ri, tostyle), True, sample=dict(case, order=list(order)), calls=len(order))
                        try:
                            r = getattr(gg, op)(da, list(order), to=to_kw, **kw)
                        except Exception as e:
                            rec.violation("multi-axis", "raise:" + exc_sig(e), case, "array", f"{type(e).__name__}: {e}"[:200])
                            continue
                        exp = a
                        ed = list(dims)
                        for ax, to in zip(order, tos):
                            rule = rs["boundary"][ax] if isinstance(rs["boundary"], dict) else rs["boundary"]
                            fv = rs["fill_value"][ax] if isinstance(rs["fill_value"], dict) else (rs["fill_value"] or 0.0)
                            i = ed.index(S.dimname(ax, start[ax]))
                            exp = np.moveaxis(S.ref_stencil(np.moveaxis(exp, i, -1), start[ax], to, MN[ax], op, rule, fv), -1, i)
                            ed[i] = S.dimname(ax, to)
                        compare(rec, "multi-axis", case, r, exp, ed)


def shards(tier, seed):
    sh = [("a", li, n) for li in range(len(S.LAYOUTS)) for n in BOUNDS[tier]["n"]]
    sh += [("b", si) for si in range(len(S.SHIFTS))]
    sh += [("c", oi) for oi in range(len(axis_orders()))]
    return sh


def run_shard(shard, tier, seed, rec):
    if shard[0] == "a":
        part_a(rec, shard[1], shard[2], seed)
    elif shard[0] == "b":
        part_b(rec, shard[1], tier, seed)
    else:
        part_c(rec, shard[1], tier, seed)


def replay_case(case, seed, rec):
    p = case["part"]
    if p == "a":
        part_a(rec, case["li"], case["n"], seed, only=case)
    elif p == "b":
        for tier in ("quick", "thorough"):
            part_b(rec, case["si"], tier, seed, only=case)
            if rec.viol:
                break
    else:
        for tier in ("thorough",):
            part_c(rec, case["oi"], tier, seed, only=case)
