"""C10  The metric applied is the one registered for the array's position and axes.

Every registry up to a size bound over a pool of metric variables (distinct prime labels, so a
product identifies its factors and an interpolated value its parents) x every array position x
every requested axis set in every order and spelling.  Oracle: the *set of admissible answers*
transcribed from the statement (xmc.ref.metrics.admissible).  integrate / average / derivative /
metric_weighted are then checked against the metric the implementation returned.
"""
import itertools
import warnings

import numpy as np
import xarray as xr

from ..core import exc_sig
from ..ref import metrics as M
from ..ref import simple as S

PID = "C10"
LEVEL = "exploration"
TECHNIQUE = "bounded exhaustive enumeration of metric registries x array positions x axis requests, real get_metric/integrate/average/derivative against the admissible-answer set of the statement"
RULE = (
    "case = (grid, registry (ordered), array dims, requested axes spelling); non-trivial = the registry offers >= 2 candidate "
    "variables for the request or the answer is a product / needs interpolation"
)
SPACE = {
    "quick": "grid A (X:{C,L}, Y:{C,O}): all registries of <= 3 of 14 pool entries (1-D and non-separable 2-D single-axis metrics; one dataset variable entered for X and for Y) (both list orders for pairs) x 6 array layouts x 6 requests; grid B (X:{C,L,R}, Y:{C,L}, Z:{C,O}): all registries of <= 3 of 11 variables x 3 array positions x 15 ordered requests; derived operations on every registry of grid A that answers; on grid A, after all queries one variable is overwritten by a twin on the same Grid object and every query is repeated",
    "thorough": "registries of <= 4 variables on both grids, all list orders",
}
BOUNDS = {"quick": {"max_vars": 3}, "thorough": {"max_vars": 4}}
ASSUMPTIONS = [
    "moves between two non-center positions (e.g. left->right) are not defined by the statement: such requests are counted and skipped",
    "metric values are distinct primes: a product identifies its factors, an interpolated value its two parents",
    "comparison tolerance rtol 1e-12 (products and halves of small integers are exact in float64)",
]

GRIDS = {
    "A": dict(lay={"X": ("center", "left"), "Y": ("center", "outer")}, ns={"X": 3, "Y": 2},
              pool=[(("X",), dict(X="center")), (("X",), dict(X="left")), (("Y",), dict(Y="center")), (("Y",), dict(Y="outer")),
                    (("X", "Y"), dict(X="center", Y="center")), (("X", "Y"), dict(X="left", Y="outer")), (("X", "Y"), dict(X="left", Y="center")),
                    (("X",), dict(X="center"), "b"), (("Y",), dict(Y="outer"), "b"),
                    # single-axis metrics that vary along both axes (not separable)
                    (("X",), dict(X="center", Y="center"), "2d"), (("Y",), dict(X="center", Y="center"), "2d"), (("X",), dict(X="left", Y="outer"), "2d"),
                    # the *same* dataset variable as pool entry 9 (an isotropic spacing) registered for the other axis as well
                    (("Y",), dict(X="center", Y="center"), "alias", 9),
                    # a twin of entry 4 (same axes, same positions) stored with its dimensions in the other order
                    (("X", "Y"), dict(Y="center", X="center"), "tr")],
              arrays=[("xc", "yc"), ("xl", "yc"), ("xc", "yo"), ("xl", "yo"), ("yc", "xc"), ("t", "yo", "xl")],
              requests=[("X",), ("Y",), ("X", "Y"), ("Y", "X"), "X", ["Y", "X"]]),
    "B": dict(lay={"X": ("center", "left", "right"), "Y": ("center", "left"), "Z": ("center", "outer")}, ns={"X": 2, "Y": 2, "Z": 2},
              pool=[(("X",), dict(X="center")), (("X",), dict(X="left")), (("X",), dict(X="right")), (("Y",), dict(Y="center")), (("Z",), dict(Z="center")),
                    (("Z",), dict(Z="outer")), (("X", "Y"), dict(X="center", Y="center")), (("Y", "Z"), dict(Y="center", Z="center")),
                    (("X", "Z"), dict(X="center", Z="center")), (("X", "Y", "Z"), dict(X="center", Y="center", Z="center")),
                    (("X", "Y"), dict(X="left", Y="center"))],
              arrays=[("xc", "yc", "zc"), ("xl", "yc", "zc"), ("zo", "yc", "xr")],
              requests=[r for k in (1, 2, 3) for r in itertools.permutations(("X", "Y", "Z"), k)]),
}
_CTX = {}


def ctx(gname):
    if gname not in _CTX:
        G = GRIDS[gname]
        mg = M.MGrid(G["lay"], G["ns"])
        pit = iter(M.primes(600))
        vs = []
        for i, spec in enumerate(G["pool"]):
            axes, posn = spec[0], spec[1]
            tag = spec[2] if len(spec) > 2 else ""
            if tag == "alias":
                o = vs[spec[3]]
                vs.append(M.MVar(o.name, axes, o.dims, o.values))
                continue
            name = "m" + "".join(a.lower() for a in axes) + "_" + "".join(S.SHORT[posn[a]] for a in posn) + tag
            vs.append(mg.make_var(name, axes, posn, pit))
        ds = mg.dataset(vs, extra={"t": 2})
        _CTX[gname] = dict(mg=mg, vars=vs, ds=ds)
    return _CTX[gname]


def make_grid(gname, order):
    from xgcm import Grid

    c = ctx(gname)
    metrics = {}
    slots = [(c["vars"][i].axes, frozenset(c["vars"][i].dims)) for i in order]
    distinct_slots = len(set(slots)) == len(slots)
    for i in order:
        v = c["vars"][i]
        key = v.axes
        if key in metrics and (sum(order) + len(order)) % 2 == 0 and distinct_slots:
            # (only when every variable has a slot of its own: a second variable for a taken slot under another key is a second
            # registration, which is refused)
            # the same axis set under a second spelling (other order of the names / a bare name): one registry entry
            key = tuple(reversed(v.axes)) if len(v.axes) > 1 else v.axes[0]
        metrics.setdefault(key, []).append(v.name)
    with warnings.catch_warnings():
        warnings.simplefilter("ignore")
        g = Grid(c["ds"], coords=S.grid_coords(GRIDS[gname]["lay"]), periodic=False, autoparse_metadata=False, metrics=metrics)
    reg = {}
    for i in order:
        v = c["vars"][i]
        reg.setdefault(frozenset(v.axes), []).append(v)
    return g, reg


def lenient(mg, reg, arr_dims, axes):
    """like M.admissible but any registered variable of a block may be used, interpolated if
    necessary, even when another one sits at the array's position (used only to classify)"""
    import functools
    import operator

    key = frozenset(axes)
    out = []

    def cands(block):
        res = []
        for v in reg[block]:
            if mg.at_position(v, arr_dims):
                res.append(xr.DataArray(v.values, dims=v.dims))
            else:
                r = mg.to_position(v.values, v.dims, arr_dims)
                if r is not None:
                    res.append(xr.DataArray(r[0], dims=r[1]))
        return res

    parts = [[key]] if key in reg else [p for p in M.partitions(sorted(key)) if len(p) > 1 and all(b in reg for b in p)]
    for p in parts:
        for combo in itertools.product(*[cands(b) for b in p]):
            out.append((functools.reduce(operator.mul, combo), False, "lenient"))
    return out


ARR_DTYPES = (np.float64, np.int32, np.bool_, np.float32, np.int16)


def arr_of(mg, dims, seed, dt=0):
    """the array the metric is asked for; its dtype must not matter for the metric that is returned"""
    shape = tuple(2 if d == "t" else mg.size(d) for d in dims)
    a = ((np.arange(int(np.prod(shape))) * 5 + seed) % 13).astype(float).reshape(shape) + 1
    dtype = ARR_DTYPES[dt % len(ARR_DTYPES)]
    if dtype is np.bool_:
        a = a % 2 > 0
    return xr.DataArray(a.astype(dtype), dims=dims, name="q")


TWINS = {"A": {0: 7, 3: 8, 4: 13}}  # pool index -> index of another variable for the same slot


def overwritten(gname, order, g=None, reg=None):
    """after all queries: one registered variable is overwritten by its twin on the *same* Grid object;
    returns (g, reg, swap) for the new registry or None"""
    tw = TWINS.get(gname, {})
    for old, new in tw.items():
        if old in order and new not in order:
            c = ctx(gname)
            if g is None:
                g, reg = make_grid(gname, order)
            v = c["vars"][new]
            names = [v.name]
            reg2 = {k: [c["vars"][new] if x is c["vars"][old] else x for x in vs] for k, vs in reg.items()}
            # in the same call a variable for a slot that is still empty (same axes, another position), after the overwriting one
            extra = {0: 1, 3: 2}.get(old)
            if extra is not None and extra not in order:
                names.append(c["vars"][extra].name)
                reg2[frozenset(v.axes)] = reg2[frozenset(v.axes)] + [c["vars"][extra]]
            g.set_metrics(v.axes, names if len(names) > 1 else names[0], overwrite=True)
            return g, reg2, [old, new]
    return None


def check_get_metric(rec, gname, order, ai, ri, seed, g=None, reg=None, swap=None, after_refused=False):
    c = ctx(gname)
    mg = c["mg"]
    G = GRIDS[gname]
    dims, req = G["arrays"][ai], G["requests"][ri]
    case = dict(kind="get_metric", grid=gname, order=list(order), ai=ai, ri=ri)
    if swap:
        case["after_overwrite"] = swap
    if after_refused:
        case["after_refused"] = True
    if g is None:
        g, reg = make_grid(gname, order)
        if after_refused:
            for k in (1, 2, 3):
                for ks in itertools.combinations(sorted(G["lay"]), k):
                    try:
                        with warnings.catch_warnings():
                            warnings.simplefilter("ignore")
                            g.set_metrics(ks, "no_such_variable")
                    except Exception:
                        pass
        if swap:
            # the history: every query first, then the overwrite, then the query under test
            for a2 in range(len(G["arrays"])):
                for r2 in range(len(G["requests"])):
                    try:
                        with warnings.catch_warnings():
                            warnings.simplefilter("ignore")
                            g.get_metric(arr_of(mg, G["arrays"][a2], seed), G["requests"][r2])
                    except Exception:
                        pass
            g, reg, _ = overwritten(gname, order, g, reg)
    axes = (req,) if isinstance(req, str) else tuple(req)
    arr = arr_of(mg, dims, seed, dt=ai + ri)
    kind, cands = M.admissible(mg, reg, [d for d in dims if d != "t"], axes)
    ncand = len(cands) if cands else 0
    rec.case((gname, tuple(order), ai, ri, tuple(swap or ()), after_refused), kind == "set" and (ncand > 1 or any(w for _, w, _ in cands) or "*" in cands[0][2]),
             sample=dict(case, dims=list(dims), request=req, registry=[c["vars"][i].name for i in order]))
    rec.counters["oracle:" + kind] += 1
    with warnings.catch_warnings(record=True) as w:
        warnings.simplefilter("always")
        try:
            got = g.get_metric(arr, req if not isinstance(req, list) else list(req))
            err = None
        except Exception as e:
            got, err = None, e
    warned = any(not issubclass(x.category, (DeprecationWarning, FutureWarning, PendingDeprecationWarning)) for x in w)
    if kind == "any":
        return None
    if kind == "raise":
        if err is None:
            rec.violation("get_metric", "returned-with-nothing-registered", case, "raise", got.values)
        return None
    if err is not None:
        rec.violation("get_metric", "raise:" + exc_sig(err), case, [l for _, _, l in cands], f"{type(err).__name__}: {err}"[:200])
        return None
    i = M.match(got, cands)
    if i is None:
        cls = "not-admissible"
        if M.match(got, lenient(mg, reg, [d for d in dims if d != "t"], axes)) is not None:
            cls = "interpolated-variable-used-although-one-sits-at-the-array-position"
        rec.violation("get_metric", cls, case, [l for _, _, l in cands], got.values)
        return None
    if cands[i][1] and not warned:
        rec.violation("get_metric", "missing-warning", case, "warning", "none")
        return None
    # broadcast against the array
    try:
        prod = arr * got
        if set(prod.dims) != set(arr.dims):
            rec.violation("get_metric", "does-not-broadcast", case, list(arr.dims), list(prod.dims))
            return None
    except Exception as e:
        rec.violation("get_metric", "does-not-broadcast", case, list(arr.dims), str(e)[:100])
        return None
    return got


def check_derived(rec, gname, order, ai, ri, seed, g=None, reg=None):
    """integrate / average / derivative / metric_weighted against the returned metric"""
    c = ctx(gname)
    mg = c["mg"]
    G = GRIDS[gname]
    dims, req = G["arrays"][ai], G["requests"][ri]
    if g is None:
        g, reg = make_grid(gname, order)
    axes = (req,) if isinstance(req, str) else tuple(req)
    case = dict(kind="derived", grid=gname, order=list(order), ai=ai, ri=ri)
    arr = arr_of(mg, dims, seed)
    kind, cands = M.admissible(mg, reg, [d for d in dims if d != "t"], axes)
    if kind != "set":
        return
    with warnings.catch_warnings():
        warnings.simplefilter("ignore")
        try:
            m = g.get_metric(arr, req)
        except Exception:
            return
        if M.match(m, cands) is None:
            return
        rec.case(("derived", gname, tuple(order), ai, ri), True, sample=case, calls=4)
        sumdims = [mg.axis_dim(dims, a) for a in axes]
        try:
            it = g.integrate(arr, req)
            e = (arr * m).sum(sumdims)
            if set(it.dims) != set(e.dims) or not np.allclose(it.transpose(*e.dims).values, e.values, rtol=1e-12):
                rec.violation("integrate", "not-sum-of-data-times-metric", case, e.values, it.values)
                return
            if len(axes) > 1:
                it2 = g.integrate(arr, list(reversed(axes)))
                m2 = g.get_metric(arr, tuple(reversed(axes)))
                e2 = (arr * m2).sum(sumdims)
                if not np.allclose(it2.transpose(*e2.dims).values, e2.values, rtol=1e-12):
                    rec.violation("integrate", "axis-order", case, e2.values, it2.values)
                    return
            av = g.average(arr, req)
            mb = m.broadcast_like(arr)
            ea = (arr * m).sum(sumdims) / mb.sum(sumdims)
            if not np.allclose(av.transpose(*ea.dims).values, ea.values, rtol=1e-12):
                rec.violation("average", "not-weighted-mean", case, ea.values, av.values)
                return
            const = xr.full_like(arr, 7.0)
            avc = g.average(const, req)
            if not np.allclose(avc.values, 7.0, rtol=1e-12):
                rec.violation("average", "constant-field", case, 7.0, avc.values)
                return
            # a field with missing values, in memory and dask-backed: the metric is summed over the valid points only
            arrn = arr.astype(float).copy(deep=True)
            arrn.values.flat[1 % arrn.size] = np.nan
            arrn.values.flat[arrn.size - 1] = np.nan
            valid = arrn.notnull()
            ean = (arrn.fillna(0.0) * m).sum(sumdims) / mb.where(valid).sum(sumdims)
            for lazy in ((False, True) if (ai + ri + sum(order)) % 3 == 0 else ()):
                avn = g.average(arrn.chunk({d: 1 for d in arrn.dims[:1]}) if lazy else arrn, req)
                rec.calls += 1
                if set(avn.dims) != set(ean.dims) or not np.allclose(avn.transpose(*ean.dims).values, ean.values, rtol=1e-12, equal_nan=True):
                    rec.violation("average", "missing-values:not-over-valid-data" + (":dask-backed" if lazy else ""), case, ean.values, avn.transpose(*ean.dims).values if set(avn.dims) == set(ean.dims) else list(avn.dims))
                    return
        except Exception as e:
            rec.violation("integrate", "raise:" + exc_sig(e), case, "array", f"{type(e).__name__}: {e}"[:200])
            return
        # metric_weighted given per axis in a multi-axis call == the single-axis calls one after another
        if len(axes) == 2:
            a1, a2 = axes
            for op in ("diff", "interp"):
                try:
                    with warnings.catch_warnings():
                        warnings.simplefilter("ignore")
                        s1 = getattr(g, op)(arr, a1, boundary="extend", metric_weighted=(a1,))
                        s2 = getattr(g, op)(s1, a2, boundary="extend", metric_weighted=(a2,))
                except Exception:
                    break  # a single-axis metric is missing or a shift is undefined: nothing to compare
                try:
                    with warnings.catch_warnings():
                        warnings.simplefilter("ignore")
                        both = getattr(g, op)(arr, [a1, a2], boundary="extend", metric_weighted={a1: (a1,), a2: a2})
                    rec.calls += 3
                    if set(both.dims) != set(s2.dims) or not np.allclose(both.transpose(*s2.dims).values, s2.values, rtol=1e-12):
                        rec.violation("metric_weighted", f"{op}-per-axis-mapping-differs-from-one-axis-at-a-time", case, s2.values, both.values)
                        return
                except Exception as e:
                    rec.violation("metric_weighted", "raise-per-axis-mapping:" + exc_sig(e), case, "array", f"{type(e).__name__}: {e}"[:200])
                    return
        # derivative and metric_weighted along a single axis whose shift is defined
        if len(axes) == 1:
            ax = axes[0]
            d_in = mg.axis_dim(dims, ax)
            p_in = mg.dim2ap[d_in][1]
            to = S.default_shift(GRIDS[gname]["lay"][ax], p_in)
            if to is None:
                return
            try:
                df = g.diff(arr, ax, boundary="extend")
                try:
                    mres = g.get_metric(df, (ax,))
                except Exception:
                    return
                kindr, candr = M.admissible(mg, reg, [d for d in df.dims if d != "t"], (ax,))
                if kindr != "set" or M.match(mres, candr) is None:
                    return
                dv = g.derivative(arr, ax, boundary="extend")
                ed = df / mres
                if dv.dims != ed.dims or not np.allclose(dv.values, ed.values, rtol=1e-12):
                    rec.violation("derivative", "not-diff-over-metric-at-result", case, ed.values, dv.values)
                    return
                for op in ("diff", "interp"):
                    mw = getattr(g, op)(arr, ax, boundary="extend", metric_weighted=(ax,))
                    raw = getattr(g, op)(arr * m, ax, boundary="extend")
                    emw = raw / mres
                    if mw.dims != emw.dims or not np.allclose(mw.values, emw.values, rtol=1e-12):
                        rec.violation("metric_weighted", f"{op}-not-op(data*m)/m'", case, emw.values, mw.values)
                        return
            except Exception as e:
                rec.violation("derivative", "raise:" + exc_sig(e), case, "array", f"{type(e).__name__}: {e}"[:200])


def registries(gname, tier):
    npool = len(GRIDS[gname]["pool"])
    out = []
    for k in range(1, BOUNDS[tier]["max_vars"] + 1):
        for sub in itertools.combinations(range(npool), k):
            out.append(tuple(sub))
            if k >= 2:
                out.append(tuple(reversed(sub)))
            if tier == "thorough" and k == 3:
                out.append((sub[1], sub[0], sub[2]))
    if gname == "B":
        # every single-axis metric at the centre plus one or two more variables: requests for all three
        # axes must prefer the partition with the larger block even when that block has to be interpolated
        base = (0, 3, 4)
        rest = [i for i in range(npool) if i not in base]
        for k in (1, 2):
            for sub in itertools.combinations(rest, k):
                out.append(base + tuple(sub))
                out.append(tuple(sub) + base)
    return out


def shards(tier, seed):
    sh = []
    for gname in GRIDS:
        regs = registries(gname, tier)
        size = 12 if gname == "A" else 8
        sh += [(gname, lo, min(lo + size, len(regs))) for lo in range(0, len(regs), size)]
    return sh


def run_shard(shard, tier, seed, rec):
    gname, lo, hi = shard
    regs = registries(gname, tier)
    G = GRIDS[gname]
    for order in regs[lo:hi]:
        try:
            g, reg = make_grid(gname, order)
        except Exception as e:
            rec.violation("constructor", "raise:" + exc_sig(e), dict(kind="get_metric", grid=gname, order=list(order), ai=0, ri=0), "Grid", str(e)[:200])
            continue
        for ai in range(len(G["arrays"])):
            for ri in range(len(G["requests"])):
                got = check_get_metric(rec, gname, order, ai, ri, seed, g, reg)
                if got is not None and gname == "A" and not isinstance(G["requests"][ri], list):
                    check_derived(rec, gname, order, ai, ri, seed, g, reg)
        # a registration that is refused (a variable the dataset does not have), for every axis set: the registry and
        # every answer stay what they were (every second registry)
        if (lo + regs.index(order)) % 2 == 0:
            keysets = [ks for k in (1, 2, 3) for ks in itertools.combinations(sorted(G["lay"]), k)]
            for ks in keysets:
                try:
                    with warnings.catch_warnings():
                        warnings.simplefilter("ignore")
                        g.set_metrics(ks, "no_such_variable")
                    rec.violation("get_metric", "unknown-variable-registered", dict(kind="get_metric", grid=gname, order=list(order), ai=0, ri=0, after_refused=True), "raise", "returned")
                except Exception:
                    pass
            for ai in range(len(G["arrays"])):
                for ri in range(len(G["requests"])):
                    check_get_metric(rec, gname, order, ai, ri, seed, g, reg, after_refused=True)
        # the registry changes under the same Grid object: answers must follow it
        try:
            ow = overwritten(gname, order, g, reg)
        except Exception as e:
            rec.violation("get_metric", "overwrite-raise:" + exc_sig(e), dict(kind="get_metric", grid=gname, order=list(order), ai=0, ri=0), "registered", str(e)[:200])
            ow = None
        if ow is not None:
            g2, reg2, swap = ow
            for ai in range(len(G["arrays"])):
                for ri in range(len(G["requests"])):
                    check_get_metric(rec, gname, order, ai, ri, seed, g2, reg2, swap=swap)


def replay_case(case, seed, rec):
    if case["kind"] == "get_metric":
        check_get_metric(rec, case["grid"], tuple(case["order"]), case["ai"], case["ri"], seed, swap=case.get("after_overwrite"), after_refused=case.get("after_refused", False))
    else:
        check_derived(rec, case["grid"], tuple(case["order"]), case["ai"], case["ri"], seed)
