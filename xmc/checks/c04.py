"""C04  Vector components cross rotated face links with the right partner and sign.

A global C-grid vector field (U on x-edges, V on y-edges) is cut into rotated faces by geometry:
a face's local component at a local edge is +-U or +-V of the global edge it coincides with, so
partner choice and sign are *derived*, not tabulated.  On fully periodic domains the summed
differences must equal the divergence of the undivided field.  Without face connections the
vector form must equal passing the component alone.
"""
import itertools
import warnings

import numpy as np
import xarray as xr

from ..core import exc_sig
from ..ref import topology as T

PID = "C04"
LEVEL = "exploration"
TECHNIQUE = "bounded exhaustive enumeration of rotated (non-reversed) face decompositions x components x ops x layouts against a geometrically cut global C-grid vector field and its divergence"
RULE = (
    "case = (Kx,Ky,N,periodicity,rotation assignment,op,layout); non-trivial = a halo value is taken from another face; "
    "counted separately: from the partner component (axis-swapping link) and with a sign change"
)
SPACE = {
    "quick": "domains 2x1,1x2,2x2,3x1 (N=2) and 2x1,1x2 (N=3) x 3 periodicities x all 4^K rotation assignments (all-links-non-reversed kept) x {diff,interp} (direct calls and the *_2d_vector wrappers) x both components x 6 layouts (the partner in a different dimension order than the component), for half of the layouts the Grid keeps its default (periodic) rule and the rule comes with each call, each evaluated twice on the same Grid with the same array objects overwritten in place; grids without face connections: 2 ops x 2 comps x 3 rules x 3 layouts",
    "thorough": "+ 2x2,3x1,1x3 at N=3, 2x3 at N=2, all layouts for every case",
}
BOUNDS = {"quick": {"N": [2, 3]}, "thorough": {"N": [2, 3]}}
ASSUMPTIONS = [
    "U and V carry disjoint label ranges of opposite sign with non-linear (squared) integer values, so source component, source cell and sign are identified exactly",
    "left (low-edge) staggering of the components; unlinked (open) edges are compared under fill(0)",
]
LAYOUTS = (("face", "Y", "X"), ("t", "face", "Y", "X"), ("face", "t", "Y", "X"), ("Y", "X", "face"), ("face", "X", "Y"), ("X", "face", "t", "Y"))
# the partner component is stored in its own layout (the next one with the same extra dimensions)
PARTNER_LAYOUT = {0: 4, 4: 0, 1: 5, 5: 1, 2: 1, 3: 0}
PERIODICITIES = ((False, False), (True, True), (True, False))


def make_grid(K, N, table, percall=False):
    """percall: the Grid keeps its default (periodic) rule and the rule under test comes with each call"""
    from xgcm import Grid

    ds = xr.Dataset(
        coords={
            "x": ("x", np.arange(N)), "xl": ("xl", np.arange(N) - 0.5),
            "y": ("y", np.arange(N)), "yl": ("yl", np.arange(N) - 0.5),
            "face": ("face", np.arange(K)), "t": ("t", np.arange(2)),
        }
    )
    with warnings.catch_warnings():
        warnings.simplefilter("ignore")
        if percall:
            return Grid(ds, coords={"X": {"center": "x", "left": "xl"}, "Y": {"center": "y", "left": "yl"}},
                        face_connections={"face": table}, autoparse_metadata=False)
        return Grid(ds, coords={"X": {"center": "x", "left": "xl"}, "Y": {"center": "y", "left": "yl"}},
                    face_connections={"face": table}, boundary="fill", fill_value=0.0, periodic=False,
                    autoparse_metadata=False)


def global_uv(D, seed):
    W, H = D.W, D.H
    U = (np.arange(H * (W + 1), dtype=float).reshape(H, W + 1) + 1 + seed % 5) ** 2
    V = -((np.arange((H + 1) * W, dtype=float).reshape(H + 1, W) + 3 + seed % 3) ** 2) * 2
    if D.periodic[0]:
        U = U[:, :W]
    if D.periodic[1]:
        V = V[:H, :]
    return U, V


def layout_da(arr, comp, layout, second):
    dims = {"X": ["face", "y", "xl"], "Y": ["face", "yl", "x"]}[comp]
    da = xr.DataArray(np.array(arr), dims=dims)  # a private copy: the check overwrites it in place later
    if "t" in layout:
        da = xr.concat([da, xr.DataArray(second, dims=dims)], dim="t")
    m = {"face": "face", "t": "t", "Y": dims[1], "X": dims[2]}
    return da.transpose(*[m[d] for d in layout]).copy()


def run_case(rec, Kx, Ky, N, per, orient, op, li, seed, pre=None):
    case = dict(Kx=Kx, Ky=Ky, N=N, per=list(per), orient=list(orient), op=op, li=li)
    if pre is None:
        D = T.Domain(Kx, Ky, N, orient, per)
        table, ok, kinds = D.links()
        if not ok or any(k[2] for k in kinds) or not kinds:
            return
    else:
        D, table, kinds = pre
    nf = D.nf
    layout = LAYOUTS[li]
    swapped = any(k[1] for k in kinds)
    rec.case((Kx, Ky, N, per, orient, op, li), True, sample=case, calls=2)
    rec.counters["with_axis_swapping_links"] += swapped
    fields = []
    for s in (seed, seed + 1):
        U, V = global_uv(D, s)
        u = np.empty((nf, N, N))
        v = np.empty((nf, N, N))
        for f in range(nf):
            for jp in range(N):
                for ip in range(N):
                    u[f, jp, ip] = D.edge_val(U, V, f, ip, jp, "X")
                    v[f, jp, ip] = D.edge_val(U, V, f, ip, jp, "Y")
        fields.append((U, V, u, v))
    if li % 2:
        table = {f: dict(reversed(list(table[f].items()))) for f in reversed(list(table))}
    # the reverse flags as Python bools, numpy booleans or 0/1: the same topology
    table = T.respell_flags(table, li + len(op) + len(orient) + Kx)
    try:
        percall = li in (1, 2, 5)
        ckw = dict(boundary="fill", fill_value=0.0) if percall else {}
        g = make_grid(nf, N, table, percall=percall)
    except Exception as e:
        rec.violation("constructor", "raise:" + exc_sig(e), case, "a Grid", f"{type(e).__name__}: {e}"[:200])
        return
    playout = LAYOUTS[PARTNER_LAYOUT[li]]
    single = li == 4
    if single:
        # the component is held in single precision, the partner in double precision with values that single
        # precision cannot represent: what crosses an axis-swapping link must arrive unrounded
        fields = []
        for s_ in (seed, seed + 1):
            U, V = global_uv(D, s_)
            U, V = U + 0.1, V - 0.3
            u = np.empty((nf, N, N)); v = np.empty((nf, N, N))
            for f in range(nf):
                for jp in range(N):
                    for ip in range(N):
                        u[f, jp, ip] = D.edge_val(U, V, f, ip, jp, "X")
                        v[f, jp, ip] = D.edge_val(U, V, f, ip, jp, "Y")
            fields.append((U, V, u, v))
    ua = layout_da(fields[0][2], "X", layout, fields[1][2])
    va = layout_da(fields[0][3], "Y", layout, fields[1][3])
    # the partner handed over as other_component uses another dimension order than the component
    ua_p = layout_da(fields[0][2], "X", playout, fields[1][2])
    va_p = layout_da(fields[0][3], "Y", playout, fields[1][3])
    if single:
        ua, va = ua.astype(np.float32), va.astype(np.float32)
    if (li + Kx + len(orient)) % 2 == 0:
        # history: the same Grid first treats arrays at the same positions as *scalars* (same axes, same halo width);
        # what that call worked out about the links must not be taken over by the vector calls that follow
        for a_, ax_ in ((ua, "X"), (va, "Y")):
            try:
                getattr(g, op)(a_, ax_, **ckw)
                rec.calls += 1
            except Exception:
                pass
    try:
        ru = getattr(g, op)({"X": ua}, "X", other_component={"Y": va_p}, **ckw)
        rv = getattr(g, op)({"Y": va}, "Y", other_component={"X": ua_p}, **ckw)
    except Exception as e:
        rec.violation("vector-op", "raise:" + exc_sig(e), case, "array", f"{type(e).__name__}: {e}"[:200])
        return
    m = {"face": "face", "t": "t", "Y": "y", "X": "x"}
    edims = [m[d] for d in layout]
    if list(ru.dims) != edims or list(rv.dims) != edims:
        rec.violation("vector-op", "dims", case, edims, [list(ru.dims), list(rv.dims)])
        return
    # the two-component wrappers (both components in one mapping, either key order) give the same pair of answers
    try:
        vec = {"X": ua, "Y": va} if (li + len(orient)) % 2 == 0 else {"Y": va, "X": ua}
        # (not in the mixed-precision variant: there the partner handed to the direct call is held in another precision)
        r2 = getattr(g, op + "_2d_vector")(vec, **ckw) if not single else {"X": ru, "Y": rv}
        rec.calls += 1
        for comp, direct in (("X", ru), ("Y", rv)):
            w = r2[comp]
            if set(w.dims) != set(direct.dims) or not np.array_equal(w.transpose(*direct.dims).values, direct.values):
                rec.violation("vector-op", f"{op}_2d_vector-differs-from-{op}:{comp}-component", case, direct.values, w.transpose(*direct.dims).values if set(w.dims) == set(direct.dims) else list(w.dims))
                return
    except Exception as e:
        rec.violation("vector-op", f"raise:{op}_2d_vector:" + exc_sig(e), case, "mapping of two arrays", f"{type(e).__name__}: {e}"[:200])
        return
    results = [(ru, rv)]
    if "t" not in layout and not single:
        # the same array objects, overwritten in place with another field, on the same Grid: the
        # answer must follow the current values
        try:
            ua.values[...] = layout_da(fields[1][2], "X", layout, fields[1][2]).values
            va.values[...] = layout_da(fields[1][3], "Y", layout, fields[1][3]).values
            ua_p.values[...] = layout_da(fields[1][2], "X", playout, fields[1][2]).values
            va_p.values[...] = layout_da(fields[1][3], "Y", playout, fields[1][3]).values
            results.append((getattr(g, op)({"X": ua}, "X", other_component={"Y": va_p}, **ckw), getattr(g, op)({"Y": va}, "Y", other_component={"X": ua_p}, **ckw)))
            rec.calls += 2
        except Exception as e:
            rec.violation("vector-op", "raise-on-second-call:" + exc_sig(e), case, "array", f"{type(e).__name__}: {e}"[:200])
            return
    fn = (lambda a, b: b - a) if op == "diff" else (lambda a, b: 0.5 * (a + b))
    r32 = (lambda x: float(np.float32(x))) if single else (lambda x: x)
    for ti in ((0,) if single else (0, 1)):
        U, V, u, v = fields[ti]
        if "t" in layout:
            du = ru.isel(t=ti).transpose("face", "y", "x").values
            dv = rv.isel(t=ti).transpose("face", "y", "x").values
        else:
            du = results[ti][0].transpose("face", "y", "x").values
            dv = results[ti][1].transpose("face", "y", "x").values
        eu = np.empty_like(du)
        ev = np.empty_like(dv)
        for f in range(nf):
            for jp in range(N):
                for ip in range(N):
                    # values read from the component's own array are single-precision values when `single`;
                    # values that cross an axis-swapping link come from the (double precision) partner
                    if ip + 1 < N:
                        b = r32(u[f, jp, ip + 1])
                    else:
                        b = D.edge_val(U, V, f, ip + 1, jp, "X")
                        lk = table[f].get("X", (None, None))[1]
                        if b is not None and lk is not None and lk[1] == "X":
                            b = r32(b)
                    eu[f, jp, ip] = fn(r32(u[f, jp, ip]), 0.0 if b is None else b)
                    if jp + 1 < N:
                        d = r32(v[f, jp + 1, ip])
                    else:
                        d = D.edge_val(U, V, f, ip, jp + 1, "Y")
                        lk = table[f].get("Y", (None, None))[1]
                        if d is not None and lk is not None and lk[1] == "Y":
                            d = r32(d)
                    ev[f, jp, ip] = fn(r32(v[f, jp, ip]), 0.0 if d is None else d)
        if single:
            du, dv = du.astype(float), dv.astype(float)
        if not np.array_equal(du, eu):
            rec.violation("vector-op", f"{op}-X-component" + ("-swapped" if swapped else "") + ("-stale-after-in-place-update" if ti == 1 and "t" not in layout else ""), case, eu, du)
            return
        if not np.array_equal(dv, ev):
            rec.violation("vector-op", f"{op}-Y-component" + ("-swapped" if swapped else "") + ("-stale-after-in-place-update" if ti == 1 and "t" not in layout else ""), case, ev, dv)
            return
        if op == "diff" and all(per) and not single:
            gdiv = (np.roll(U, -1, axis=1) - U) + (np.roll(V, -1, axis=0) - V)
            if not np.array_equal(D.cut(gdiv), du + dv):
                rec.violation("divergence", "not-global-divergence", case, D.cut(gdiv), du + dv)
                return


# ------------------------------------------------------------ no face connections
NOFC_RULES = (("fill", 0.0), ("fill", 3.0), ("extend", 0.0), ("periodic", 0.0))
NOFC_LAYOUTS = (("Y", "X"), ("t", "Y", "X"), ("X", "t", "Y"))


def run_nofc(rec, N, op, comp, ri, li, seed):
    from xgcm import Grid

    case = dict(kind="nofc", N=N, op=op, comp=comp, ri=ri, li=li)
    rule, fv = NOFC_RULES[ri]
    layout = NOFC_LAYOUTS[li]
    ds = xr.Dataset(coords={"x": ("x", np.arange(N)), "xl": ("xl", np.arange(N) - 0.5),
                            "y": ("y", np.arange(N)), "yl": ("yl", np.arange(N) - 0.5), "t": ("t", np.arange(2))})
    with warnings.catch_warnings():
        warnings.simplefilter("ignore")
        g = Grid(ds, coords={"X": {"center": "x", "left": "xl"}, "Y": {"center": "y", "left": "yl"}},
                 boundary=rule, fill_value=fv, periodic=False, autoparse_metadata=False)
    dims = {"X": {"Y": "y", "X": "xl", "t": "t"}, "Y": {"Y": "yl", "X": "x", "t": "t"}}
    oc = T.OTHER[comp]

    def mk(c, off):
        shape = [2 if d == "t" else N for d in layout]
        a = ((np.arange(int(np.prod(shape))) * 7 + off + seed) % 31).astype(float).reshape(shape) - 11
        return xr.DataArray(a, dims=[dims[c][d] for d in layout])

    a, b = mk(comp, 3), mk(oc, 17)
    rec.case(("nofc", N, op, comp, ri, li), True, sample=case, calls=2)
    try:
        alone = getattr(g, op)(a, comp)
    except Exception as e:
        rec.violation("no-face-connections", "scalar-form-raise:" + exc_sig(e), case, "array", str(e)[:200])
        return
    try:
        vec = getattr(g, op)({comp: a}, comp, other_component={oc: b})
    except Exception as e:
        rec.violation("no-face-connections", "vector-form-raise:" + exc_sig(e), case, "same as scalar form", f"{type(e).__name__}: {e}"[:200])
        return
    if vec.dims != alone.dims or not np.array_equal(vec.values, alone.values):
        rec.violation("no-face-connections", "vector-form-differs", case, alone.values, vec.values)


def domains(tier):
    d = [(2, 1, 2), (1, 2, 2), (2, 2, 2), (3, 1, 2), (2, 1, 3), (1, 2, 3)]
    if tier == "thorough":
        d += [(1, 3, 2), (2, 2, 3), (3, 1, 3), (1, 3, 3), (2, 3, 2)]
    return d


def shards(tier, seed):
    sh = [("fc", Kx, Ky, N, per, o0) for (Kx, Ky, N) in domains(tier) for per in PERIODICITIES for o0 in T.ROT]
    sh.append(("nofc",))
    return sh


def run_shard(shard, tier, seed, rec):
    if shard[0] == "nofc":
        for N in (2, 3):
            for op in ("diff", "interp"):
                for comp in ("X", "Y"):
                    for ri in range(len(NOFC_RULES)):
                        for li in range(len(NOFC_LAYOUTS)):
                            run_nofc(rec, N, op, comp, ri, li, seed)
        return
    _, Kx, Ky, N, per, o0 = shard
    K = Kx * Ky
    idx = 0
    for rest in itertools.product(T.ROT, repeat=K - 1):
        orient = (o0,) + rest
        D = T.Domain(Kx, Ky, N, orient, per)
        table, ok, kinds = D.links()
        if not ok or any(k[2] for k in kinds) or not kinds:
            rec.counters["skipped_reversed_or_inexpressible"] += 1
            continue
        idx += 1
        for oi, op in enumerate(("diff", "interp")):
            lis = range(len(LAYOUTS))
            for li in lis:
                run_case(rec, Kx, Ky, N, per, orient, op, li, seed, pre=(D, table, kinds))


def replay_case(case, seed, rec):
    if case.get("kind") == "nofc":
        run_nofc(rec, case["N"], case["op"], case["comp"], case["ri"], case["li"], seed)
    else:
        run_case(rec, case["Kx"], case["Ky"], case["N"], tuple(case["per"]), tuple(case["orient"]), case["op"], case["li"], seed)
