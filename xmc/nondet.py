"""Owning hash-seed nondeterminism without touching xgcm's source.

PYTHONHASHSEED influences results only through the iteration order of set / frozenset objects.
`install()` binds the module-level names `set` and `frozenset` of every module of the xgcm
package to subclasses whose __iter__ asks the explorer for a permutation of the (canonically
sorted) elements whenever the iteration is requested from a frame of the xgcm package, and whose
algebra returns the same subclass.  A static AST pass lists what the rebinding cannot reach.
"""
import ast
import builtins
import math
import os
import sys

from . import REPO, explorer

_PKG = os.path.join(REPO, "xgcm") + os.sep
MAX_PERM_ELEMS = 5


def _key(x):
    if isinstance(x, (builtins.set, builtins.frozenset)):
        return ("S", tuple(sorted(_key(e) for e in x)))
    if isinstance(x, tuple):
        return ("T", tuple(_key(e) for e in x))
    return ("A", type(x).__name__, repr(x))


def _ordered(self, base_iter):
    items = sorted(base_iter(self), key=_key)
    ch = explorer.CURRENT
    if ch is None or len(items) <= 1:
        return iter(items)
    f = sys._getframe(2)
    fn = f.f_code.co_filename
    if not os.path.realpath(fn).startswith(_PKG):
        return iter(items)
    # the same object iterated again (unchanged) keeps its order; distinct objects are independent
    site = (os.path.basename(fn), f.f_code.co_name, id(self), tuple(_key(e) for e in items))
    idx = ch.memo.get(site)
    if idx is None:
        n = math.factorial(len(items)) if len(items) <= MAX_PERM_ELEMS else 2 * len(items)
        idx = ch.choose(n, ("set-order",) + site[:2] + (len(items),))
        ch.memo[site] = idx
    if len(items) <= MAX_PERM_ELEMS:
        return iter(explorer.nth_permutation(items, idx))
    # larger sets: rotations and reversed rotations only (reported as a reduction)
    k, rev = idx % len(items), idx >= len(items)
    rot = items[k:] + items[:k]
    return iter(rot[::-1] if rev else rot)


def _mk(base, name):
    def wrap(method):
        def f(self, *a):
            r = getattr(base, method)(self, *a)
            return cls(r) if isinstance(r, (builtins.set, builtins.frozenset)) and not isinstance(r, cls) else r

        f.__name__ = method
        return f

    ns = {"__iter__": lambda self: _ordered(self, base.__iter__), "__slots__": ()}
    for m in ("__or__", "__and__", "__sub__", "__xor__", "__ror__", "__rand__", "__rsub__", "__rxor__",
              "union", "intersection", "difference", "symmetric_difference", "copy"):
        ns[m] = wrap(m)
    if base is builtins.frozenset:
        ns["__hash__"] = base.__hash__
    ns["__reduce__"] = lambda self: (base, (list(base.__iter__(self)),))
    cls = type(name, (base,), ns)
    return cls


ChoiceSet = _mk(builtins.set, "ChoiceSet")
ChoiceFrozenSet = _mk(builtins.frozenset, "ChoiceFrozenSet")


def package_modules():
    import importlib
    import pkgutil

    import xgcm

    mods = []
    for mi in pkgutil.iter_modules(xgcm.__path__):
        if mi.name in ("test",) or mi.ispkg:
            continue
        try:
            mods.append(importlib.import_module("xgcm." + mi.name))
        except Exception:
            pass
    return mods


_installed = False


def install():
    global _installed
    if _installed:
        return
    for m in package_modules():
        m.set = ChoiceSet
        m.frozenset = ChoiceFrozenSet
    _installed = True


def unowned_sources():
    """AST scan of the package for unordered collections the rebinding cannot intercept:
    set displays, set comprehensions and set-valued operators on dict views."""
    found = []
    d = os.path.join(REPO, "xgcm")
    for fn in sorted(os.listdir(d)):
        if not fn.endswith(".py"):
            continue
        tree = ast.parse(open(os.path.join(d, fn)).read())
        funcs = {}
        for node in ast.walk(tree):
            if isinstance(node, (ast.FunctionDef, ast.AsyncFunctionDef)):
                for sub in ast.walk(node):
                    funcs.setdefault(id(sub), node.name)
        for node in ast.walk(tree):
            kind = None
            if isinstance(node, ast.Set):
                kind = "set-display"
            elif isinstance(node, ast.SetComp):
                kind = "set-comprehension"
            elif isinstance(node, ast.BinOp) and isinstance(node.op, (ast.Sub, ast.BitAnd, ast.BitOr, ast.BitXor)):
                for side in (node.left, node.right):
                    if isinstance(side, ast.Call) and isinstance(side.func, ast.Attribute) and side.func.attr in ("keys", "items"):
                        kind = "dict-view-algebra"
            if kind:
                found.append((fn, funcs.get(id(node), "<module>"), kind))
    return sorted(set(found))
