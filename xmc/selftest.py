"""setup_cmd: sanity of the framework itself (fast)."""
import sys
import xmc
from xmc.core import compositions, h64
from xmc.ref import simple
import numpy as np


def main():
    assert len(list(compositions(4))) == 8
    assert len(simple.LAYOUTS) == 16 and len(simple.SHIFTS) == 8
    a = np.arange(6.0).reshape(2, 3)
    assert np.array_equal(simple.ref_pad(a, 1, 1, 2, "periodic", 0), np.pad(a, ((0, 0), (1, 2)), mode="wrap"))
    assert np.array_equal(simple.ref_pad(a, 0, 2, 0, "extend", 0), np.pad(a, ((2, 0), (0, 0)), mode="edge"))
    assert np.array_equal(simple.ref_pad(a, 1, 0, 1, "fill", 7), np.pad(a, ((0, 0), (0, 1)), constant_values=7))
    # diff(cumsum to outer) = id in the reference itself
    c = simple.ref_cumsum(a, "center", "outer", 3, "fill", 0.0)
    assert np.array_equal(simple.ref_stencil(c, "outer", "center", 3, "diff", "fill", 0.0), a)
    from xmc import explorer
    explorer.selftest()
    # reference models agree with each other: every geometry-derived table is reciprocal, and the
    # index-level link rule (C05) reproduces the geometric lookup (C03) on every expressible junction
    import itertools
    from xmc.ref import topology as T
    n_tab = n_cells = 0
    for (Kx, Ky), per in itertools.product([(2, 1), (1, 2), (2, 2)], [(False, False), (True, True)]):
        for D, table, kinds in T.expressible_assignments(Kx, Ky, 2, per):
            assert T.reciprocal(table), (D.names, table)
            n_tab += 1
            if n_tab % 7:
                continue
            G = np.arange(D.W * D.H, dtype=float).reshape(D.H, D.W) * 3 + 1
            F = D.cut(G)
            N = D.N
            for f in range(D.nf):
                for axis in ("X", "Y"):
                    for side in (0, 1):
                        for k in (1, 2):
                            for t in range(N):
                                v = T.ref_halo(table, N, {"s": F}, "s", f, axis, side, k, t, False)
                                pos = -k if side == 0 else N - 1 + k
                                cell = (pos, t) if axis == "X" else (t, pos)
                                g = D.glob(f, *cell)
                                if v is None:
                                    assert g is None
                                else:
                                    assert g is not None and v == G[g[1], g[0]], (D.names, f, axis, side, k, t)
                                    n_cells += 1
    assert n_tab == 704 and n_cells > 1000, (n_tab, n_cells)
    # signature recogniser: language membership of a few hand-checked strings
    from xmc.ref import signature as SG
    assert SG.in_language("(X:center)->(X:left)") and SG.in_language("( X : center , Y:left ) -> ( ) , ( Y:outer )")
    for bad in ("(X:centerY:left)->()", "(X:center)->", "->(X:center)", "((X:center))->()", "(X:center)(Y:left)->()", "(:center)->()", "(X:)->()",
                "(X:center,,Y:left)->()", "(X:centre)->()", "(X:center)->()x"):
        assert not SG.in_language(bad) and not SG.unspecified(bad), bad
    assert SG.unspecified("(X:center,)->()")
    import xgcm
    print("xmc selftest ok; xgcm from", xgcm.__file__)
    return 0


if __name__ == "__main__":
    sys.exit(main())
