"""setup_cmd: sanity of the framework itself (fast)."""
import sys
import xmc
from xmc.core import compositions, h64
from xmc.ref import simple
import numpy as np


def main():
    assert len(list(compositions(4))) == 8
    assert len(simple.LAYOUTS) == 16 and len(simple.SHIFTS) == 8
    a = np.arange(6.0).reshape(2, 3)
    assert np.array_equal(simple.ref_pad(a, 1, 1, 2, "periodic", 0), np.pad(a, ((0, 0), (1, 2)), mode="wrap"))
    assert np.array_equal(simple.ref_pad(a, 0, 2, 0, "extend", 0), np.pad(a, ((2, 0), (0, 0)), mode="edge"))
    assert np.array_equal(simple.ref_pad(a, 1, 0, 1, "fill", 7), np.pad(a, ((0, 0), (0, 1)), constant_values=7))
    # diff(cumsum to outer) = id in the reference itself
    c = simple.ref_cumsum(a, "center", "outer", 3, "fill", 0.0)
    assert np.array_equal(simple.ref_stencil(c, "outer", "center", 3, "diff", "fill", 0.0), a)
    try:
        from xmc import explorer
        explorer.selftest()
    except ImportError:
        pass
    import xgcm
    print("xmc selftest ok; xgcm from", xgcm.__file__)
    return 0


if __name__ == "__main__":
    sys.exit(main())
