"""Recorder, merging, fingerprints: the bookkeeping every check shares."""
import collections
import hashlib
import os
import traceback

import numpy as np

from . import REPO


def h64(obj) -> int:
    return int.from_bytes(
        hashlib.blake2b(repr(obj).encode(), digest_size=8).digest(), "big"
    )


def jsonable(o, depth=0):
    """Best-effort conversion of a decoded configuration / value to JSON."""
    if depth > 8:
        return repr(o)
    if o is None or isinstance(o, (bool, int, str)):
        return o
    if isinstance(o, float):
        if o != o:
            return "nan"
        if o in (float("inf"), float("-inf")):
            return repr(o)
        return o
    if isinstance(o, (np.integer,)):
        return int(o)
    if isinstance(o, (np.floating,)):
        return jsonable(float(o))
    if isinstance(o, (np.bool_,)):
        return bool(o)
    if isinstance(o, np.ndarray):
        return jsonable(o.tolist(), depth + 1)
    if isinstance(o, dict):
        return {str(k): jsonable(v, depth + 1) for k, v in o.items()}
    if isinstance(o, (list, tuple)):
        return [jsonable(v, depth + 1) for v in o]
    if isinstance(o, (set, frozenset)):
        return sorted((jsonable(v, depth + 1) for v in o), key=repr)
    return repr(o)


def xgcm_frame(exc) -> str:
    """innermost function of the xgcm package on the traceback of exc ('' if none)."""
    fn = ""
    pkg = os.path.join(REPO, "xgcm") + os.sep
    for fs in traceback.extract_tb(exc.__traceback__):
        if os.path.realpath(fs.filename).startswith(pkg):
            fn = os.path.basename(fs.filename)[:-3] + "." + fs.name
    return fn


def exc_sig(exc) -> str:
    return f"{type(exc).__name__}@{xgcm_frame(exc)}"


class Rec:
    """Per-shard recorder.  Everything in it is counted by the run, never a constant."""

    MAXVIOL = 12
    MAXSAMPLES = 2

    def __init__(self):
        self.calls = 0  # real xgcm API calls executed
        self.ncases = 0  # cases (configurations / executions) checked against the oracle
        self.keys = set()  # h64 of distinct case keys
        self.nontriv = set()  # h64 of distinct non-trivial case keys
        self.states = set()  # h64 of distinct canonical states (model checking)
        self.transitions = 0
        self.traces = 0  # executions whose trace was compared impl vs reference
        self.outcomes = collections.Counter()  # label -> count (distinct observed outcomes)
        self.counters = collections.Counter()  # free-form, reported under coverage.detail
        self.viol = []
        self.nviol = 0
        self.samples = []
        self.cap_hit = False
        self.shard = None
        self.frontier = {}  # canonical state key -> shortest history reaching it (BFS rounds)

    def push(self, key, history):
        old = self.frontier.get(key)
        cand = (len(history), repr(history))
        if old is None or cand < (len(old), repr(old)):
            self.frontier[key] = history

    # -- cases -----------------------------------------------------------
    def case(self, key, nontrivial=True, sample=None, calls=1):
        self.ncases += 1
        self.calls += calls
        k = h64(key)
        self.keys.add(k)
        if nontrivial:
            self.nontriv.add(k)
        if sample is not None and len(self.samples) < self.MAXSAMPLES:
            self.samples.append(jsonable(sample))

    def state(self, canon):
        self.states.add(h64(canon))

    # -- violations ------------------------------------------------------
    def violation(self, sub, cls, case, expected=None, observed=None, cost=0, note=""):
        """sub: sub-check name; cls: specific class of the failure (used to match known
        findings); case: replayable descriptor understood by check.replay_case."""
        self.nviol += 1
        v = dict(
            sub=sub,
            cls=cls,
            case=jsonable(case),
            expected=jsonable(expected),
            observed=jsonable(observed),
            cost=cost,
            note=note,
            shard=jsonable(self.shard),
        )
        # keep at most MAXVIOL per (sub, cls) so that a flood of one class cannot hide another
        n_same = sum(1 for w in self.viol if w["sub"] == sub and w["cls"] == cls)
        if n_same < self.MAXVIOL:
            self.viol.append(v)

    def guard(self, sub, case, fn, cost=0):
        """Run fn(); an exception escaping the oracle code is reported as a violation of
        class crash:<Type>@<xgcm function> instead of killing the shard."""
        try:
            return fn()
        except Exception as e:  # noqa
            self.violation(
                sub,
                "crash:" + exc_sig(e),
                case,
                observed=f"{type(e).__name__}: {str(e)[:200]}",
                cost=cost,
                note=traceback.format_exc()[-1500:],
            )
            return None

    # -- merge -----------------------------------------------------------
    def dump(self):
        return dict(
            calls=self.calls,
            ncases=self.ncases,
            keys=self.keys,
            nontriv=self.nontriv,
            states=self.states,
            transitions=self.transitions,
            traces=self.traces,
            outcomes=self.outcomes,
            counters=self.counters,
            viol=self.viol,
            nviol=self.nviol,
            samples=self.samples,
            cap_hit=self.cap_hit,
            frontier=self.frontier,
        )

    def absorb(self, d):
        self.calls += d["calls"]
        self.ncases += d["ncases"]
        self.keys |= d["keys"]
        self.nontriv |= d["nontriv"]
        self.states |= d["states"]
        self.transitions += d["transitions"]
        self.traces += d["traces"]
        self.outcomes.update(d["outcomes"])
        self.counters.update(d["counters"])
        self.viol.extend(d["viol"])
        self.nviol += d["nviol"]
        for s in d["samples"]:
            if len(self.samples) < 4:
                self.samples.append(s)
        self.cap_hit = self.cap_hit or d["cap_hit"]
        for k, h in d.get("frontier", {}).items():
            self.push(k, h)


def compositions(n):
    """all compositions of n into positive parts, simplest (one part) first."""
    import itertools

    for k in range(n):
        for cuts in itertools.combinations(range(1, n), k):
            b = (0,) + cuts + (n,)
            yield tuple(b[i + 1] - b[i] for i in range(len(b) - 1))


def chunked(seq, size):
    seq = list(seq)
    return [seq[i : i + size] for i in range(0, len(seq), size)]
