"""Independent recogniser of the grid-ufunc signature language (C15) and canonical forms."""
import itertools

POSITIONS = ("center", "left", "right", "inner", "outer")


class Reject(Exception):
    pass


def _isname(s):
    return bool(s) and all(ch.isalnum() or ch == "_" for ch in s)


def parse(text):
    """recursive descent: signature := arglist '->' arglist ; arglist := arg {',' arg} ;
    arg := '(' [pair {',' pair}] ')' ; pair := NAME ':' POS.  Spaces are insignificant.
    Returns (inputs, outputs), each a list of tuples of (name, pos).  Raises Reject."""
    s = text.replace(" ", "")
    if s.count("->") != 1:
        raise Reject("sides")
    lhs, rhs = s.split("->")
    return _arglist(lhs), _arglist(rhs)


def _arglist(s):
    if not s:
        raise Reject("missing side")
    args = []
    i = 0
    while True:
        if i >= len(s) or s[i] != "(":
            raise Reject("expected (")
        j = s.find(")", i)
        if j < 0:
            raise Reject("unbalanced")
        body = s[i + 1: j]
        if "(" in body:
            raise Reject("nested")
        args.append(_pairs(body))
        i = j + 1
        if i == len(s):
            return args
        if s[i] != ",":
            raise Reject("juxtaposed or stray")
        i += 1


def _pairs(body):
    if body == "":
        return ()
    out = []
    for item in body.split(","):
        if item.count(":") != 1:
            raise Reject("pair")
        name, pos = item.split(":")
        if not _isname(name):
            raise Reject("name")
        if pos not in POSITIONS:
            raise Reject("position")
        out.append((name, pos))
    return tuple(out)


def in_language(text):
    try:
        parse(text)
        return True
    except Reject:
        return False


def unparse(sig, spaces=False):
    ins, outs = sig
    sep = ", " if spaces else ","
    f = lambda args: sep.join("(" + sep.join(f"{n}:{p}" for n, p in a) + ")" for a in args)
    return f(ins) + (" -> " if spaces else "->") + f(outs)


def canonical(sig):
    """first-appearance numbering of the dummy names; positions kept"""
    num = {}
    return tuple(tuple(tuple((num.setdefault(n, len(num)), p) for n, p in a) for a in part) for part in sig)


def unspecified(text):
    """not in the language, but only because of a single comma in front of a closing parenthesis ('(X:center,)', the
    trailing comma numpy's own gufunc signatures tolerate): the statement lists doubled commas and stray characters, and a
    comma that still sits inside its argument is not clearly either.  A comma *outside* the parentheses that separates
    nothing ('(X:center),->()', '()->(),', ',()->()') or one after an opening parenthesis is a stray character / an empty
    pair and must be refused."""
    s = text.replace(" ", "")
    if ",," in s or in_language(s):
        return False
    t = s.replace(",)", ")")
    return t != s and in_language(t)


def enumerate_signatures(max_in=3, max_out=2, max_pairs_per_arg=2, max_names=3, max_total=4, positions=POSITIONS, names=("X", "Y", "Z")):
    """every well-formed signature within the bounds, dummy names canonical by first appearance"""

    def arg_shapes(nargs, lo):
        return itertools.product(range(lo, max_pairs_per_arg + 1), repeat=nargs)

    for nin in range(1, max_in + 1):
        for nout in range(1, max_out + 1):
            for shape in itertools.product(range(0, max_pairs_per_arg + 1), repeat=nin + nout):
                total = sum(shape)
                if total > max_total:
                    continue
                # names: restricted growth strings over the pair slots
                def rgs(k, used):
                    if k == 0:
                        yield ()
                        return
                    for c in range(min(used + 1, max_names)):
                        for rest in rgs(k - 1, max(used, c + 1)):
                            yield (c,) + rest

                for nm in rgs(total, 0):
                    # a name may not repeat inside one argument
                    ok, k = True, 0
                    for cnt in shape:
                        if len(set(nm[k: k + cnt])) != cnt:
                            ok = False
                        k += cnt
                    if not ok:
                        continue
                    for ps in itertools.product(positions, repeat=total):
                        k = 0
                        args = []
                        for cnt in shape:
                            args.append(tuple((names[nm[k + q]], ps[k + q]) for q in range(cnt)))
                            k += cnt
                        yield (args[:nin], args[nin:])
