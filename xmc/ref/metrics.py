"""Reference model of metric selection (C10, C16): the set of admissible answers of get_metric,
transcribed from the property statement."""
import itertools

import numpy as np
import xarray as xr

from . import simple as S


def primes(k):
    out, c = [], 2
    while len(out) < k:
        if all(c % p for p in out if p * p <= c):
            out.append(c)
        c += 1
    return out


class MVar:
    def __init__(self, name, axes, dims, values):
        self.name, self.axes, self.dims, self.values = name, tuple(axes), tuple(dims), np.asarray(values, dtype=float)

    def __repr__(self):
        return self.name


class MGrid:
    """simple grid description: layouts {axis: positions}, ns {axis: n}"""

    def __init__(self, layouts, ns):
        self.layouts, self.ns = dict(layouts), dict(ns)
        self.dim2ap = {S.dimname(ax, p): (ax, p) for ax, lay in layouts.items() for p in lay}

    def dim(self, ax, p):
        return S.dimname(ax, p)

    def size(self, d):
        ax, p = self.dim2ap[d]
        return S.pos_len(p, self.ns[ax])

    def axis_dim(self, dims, ax):
        c = [d for d in dims if d in self.dim2ap and self.dim2ap[d][0] == ax]
        return c[0] if len(c) == 1 else None

    def dataset(self, mvars, extra=None):
        ds = S.make_ds(self.layouts, self.ns, extra)
        for v in mvars:
            ds[v.name] = (v.dims, v.values.copy())  # (own buffer: the model's values stay what they are whatever happens to the dataset)
        return ds

    def make_var(self, name, axes, positions, pit):
        """metric variable for `axes` located at positions {axis: pos}; values = distinct primes
        drawn from the iterator pit.  positions may name more axes than `axes`: the variable then
        also varies along those (e.g. a 2-D dx(y, x) registered for ('X',))."""
        dims = tuple(self.dim(ax, positions[ax]) for ax in positions)
        shape = tuple(self.size(d) for d in dims)
        vals = np.array([float(next(pit)) for _ in range(int(np.prod(shape)))]).reshape(shape)
        return MVar(name, axes, dims, vals)

    # ---- reference interpolation of a metric to an array's position -------------------
    def to_position(self, values, dims, arr_dims):
        """interpolate (extend) along every axis on which the positions differ.  Only
        center<->other moves are defined; returns None when another move would be needed."""
        a, dims = np.asarray(values, dtype=float), list(dims)
        for i, d in enumerate(list(dims)):
            ax, p = self.dim2ap[d]
            ad = self.axis_dim(arr_dims, ax)
            if ad is None or ad == d:
                continue
            q = self.dim2ap[ad][1]
            if "center" not in (p, q):
                return None
            a = np.moveaxis(S.ref_stencil(np.moveaxis(a, i, -1), p, q, self.ns[ax], "interp", "extend", 0.0), -1, i)
            dims[i] = ad
        return a, tuple(dims)

    def at_position(self, v, arr_dims):
        return all(d in arr_dims for d in v.dims)


def partitions(axes):
    axes = list(axes)
    if len(axes) == 1:
        yield [frozenset(axes)]
        return
    first, rest = axes[0], axes[1:]
    for part in partitions(rest):
        yield [frozenset([first])] + part
        for i in range(len(part)):
            yield part[:i] + [part[i] | {first}] + part[i + 1:]


def profile(part):
    return tuple(sorted((len(b) for b in part), reverse=True))


def block_candidates(mg, reg, block, arr_dims):
    """[(values, dims, needs_warning)] for one registered block"""
    vs = reg[block]
    here = [v for v in vs if mg.at_position(v, arr_dims)]
    if here:
        return [(v.values, v.dims, False, v.name) for v in here]
    out = []
    for v in vs:
        r = mg.to_position(v.values, v.dims, arr_dims)
        if r is not None:
            out.append((r[0], r[1], True, "interp(" + v.name + ")"))
        else:
            out.append(None)  # unspecified move (non-center to non-center)
    return out


def admissible(mg, reg, arr_dims, axes):
    """reg: {frozenset(axes): [MVar,...]}.  Returns
         ("raise", None)            nothing registered covers the request -> must raise
         ("any", None)              the statement does not determine the answer (skipped)
         ("set", [(DataArray, needs_warning, label), ...])"""
    key = frozenset(axes)
    if key in reg and reg[key]:
        c = block_candidates(mg, reg, key, arr_dims)
        if any(x is None for x in c):
            return "any", None
        return "set", [(xr.DataArray(v, dims=d), w, lab) for v, d, w, lab in c]
    parts = [p for p in partitions(sorted(key)) if len(p) > 1 and all(b in reg and reg[b] for b in p)]
    if not parts:
        return "raise", None
    best = max(profile(p) for p in parts)
    out = []
    for p in parts:
        if profile(p) != best:
            continue
        cands = [block_candidates(mg, reg, b, arr_dims) for b in p]
        if any(x is None for c in cands for x in c):
            return "any", None
        for combo in itertools.product(*cands):
            prod = None
            warn = False
            labs = []
            for v, d, w, lab in combo:
                da = xr.DataArray(v, dims=d)
                prod = da if prod is None else prod * da
                warn = warn or w
                labs.append(lab)
            out.append((prod, warn, "*".join(labs)))
    return "set", out


def match(got, cands, rtol=1e-12):
    """index of the first candidate equal to got (same dim set, values allclose) or None"""
    for i, (cand, w, lab) in enumerate(cands):
        if set(cand.dims) != set(got.dims):
            continue
        try:
            cc = cand.transpose(*got.dims)
        except Exception:
            continue
        if cc.shape == got.shape and np.allclose(cc.values, np.asarray(got.values, dtype=float), rtol=rtol, atol=0):
            return i
    return None
