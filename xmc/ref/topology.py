"""Reference models for face-connected grids.

(1) Geometric face-cut model (C03, C04): a global rectangular field is cut into Kx x Ky square
    faces of N x N cells, each face stored in its own orientation (an element of the dihedral
    group D4).  The link table is *derived from the geometry*; expected values come from a
    coordinate lookup in the undivided field.
(2) Index-level link rule (C05, C12, C17): tables built from pairings of edge slots; the halo
    cell at depth k is the cell k-1 inward from the entered edge of the neighbour, mirrored
    along the edge iff the link swaps axes and is not reversed.
"""
import itertools

import numpy as np

OTHER = {"X": "Y", "Y": "X"}

# ---------------------------------------------------------------------------------- D4
# 2x2 integer matrices; columns are the images of the local unit vectors ex, ey in the
# global frame.
D4 = {
    "id": ((1, 0), (0, 1)),
    "r90": ((0, -1), (1, 0)),
    "r180": ((-1, 0), (0, -1)),
    "r270": ((0, 1), (-1, 0)),
    "mx": ((-1, 0), (0, 1)),
    "my": ((1, 0), (0, -1)),
    "tr": ((0, 1), (1, 0)),
    "atr": ((0, -1), (-1, 0)),
}
D4 = {k: np.array(v) for k, v in D4.items()}
ROT = ("id", "r90", "r180", "r270")


class Domain:
    def __init__(self, Kx, Ky, N, orient, periodic=(False, False)):
        self.Kx, self.Ky, self.N = Kx, Ky, N
        self.faces = [(a, b) for b in range(Ky) for a in range(Kx)]
        self.names = tuple(orient)
        self.orient = [D4[o] for o in orient]
        self.periodic = tuple(periodic)
        self.W, self.H = Kx * N, Ky * N

    @property
    def nf(self):
        return len(self.faces)

    def glob(self, f, ip, jp):
        """global cell (gx, gy) of local cell (ip, jp) of face f (ip, jp may lie outside the
        face); None if outside an open domain."""
        N = self.N
        a, b = self.faces[f]
        M = self.orient[f]
        c = np.array([2 * ip - (N - 1), 2 * jp - (N - 1)])  # doubled, centred
        g = M @ c
        gx = (g[0] + (2 * a * N + N - 1)) // 2
        gy = (g[1] + (2 * b * N + N - 1)) // 2
        if not (0 <= gx < self.W):
            if self.periodic[0]:
                gx %= self.W
            else:
                return None
        if not (0 <= gy < self.H):
            if self.periodic[1]:
                gy %= self.H
            else:
                return None
        return int(gx), int(gy)

    def face_of(self, gx, gy):
        return self.faces.index((gx // self.N, gy // self.N))

    def cut(self, G):
        """G[gy, gx] -> F[f, j', i'] in each face's own orientation"""
        N = self.N
        F = np.empty((self.nf, N, N), dtype=G.dtype)
        for f in range(self.nf):
            for jp in range(N):
                for ip in range(N):
                    gx, gy = self.glob(f, ip, jp)
                    F[f, jp, ip] = G[gy, gx]
        return F

    def links(self):
        """(table, expressible, kinds): table[f][axis] = (left, right) with entries
        (face, axis, reversed) or None, derived from the geometry.  expressible is False when a
        junction needs an along-edge direction the face_connections format cannot state."""
        N = self.N
        table, ok, kinds = {}, True, []
        for f in range(self.nf):
            table[f] = {}
            for ax, (e, tdir) in {"X": ((1, 0), (0, 1)), "Y": ((0, 1), (1, 0))}.items():
                sides = []
                for side in (0, 1):
                    if ax == "X":
                        cell0 = (-1 if side == 0 else N, 0)
                    else:
                        cell0 = (0, -1 if side == 0 else N)
                    g0 = self.glob(f, *cell0)
                    if g0 is None:
                        sides.append(None)
                        continue
                    g = self.face_of(*g0)
                    R = self.orient[g].T @ self.orient[f]  # f-local -> g-local
                    d = R @ np.array(e)
                    t = R @ np.array(tdir)
                    nax = "X" if d[0] != 0 else "Y"
                    rev = bool(d.sum() < 0)
                    swap = nax != ax
                    need = -1 if (swap and not rev) else 1
                    if int(t.sum()) != need:
                        ok = False
                    sides.append((g, nax, rev))
                    kinds.append((side, swap, rev))
                if sides[0] is not None or sides[1] is not None:
                    table[f][ax] = tuple(sides)
        return table, ok, kinds

    # --- vector fields on a global C grid -------------------------------------------
    def edge_val(self, U, V, f, ip, jp, comp):
        """component along local axis `comp` at the LOW edge (left position) of local cell
        (ip, jp) of face f, as +-U or +-V of the global edge it coincides with; None when the
        cell lies outside an open domain."""
        gl = self.glob(f, ip, jp)
        if gl is None:
            return None
        gx, gy = gl
        M = self.orient[f]
        e = M[:, 0] if comp == "X" else M[:, 1]
        if e[0] == 1:
            return U[gy, gx]
        if e[0] == -1:
            return -U[gy, (gx + 1) % U.shape[1]] if self.periodic[0] else -U[gy, gx + 1]
        if e[1] == 1:
            return V[gy, gx]
        return -V[(gy + 1) % V.shape[0], gx] if self.periodic[1] else -V[gy + 1, gx]


def expressible_assignments(Kx, Ky, N, periodic, pool=tuple(D4)):
    """all orientation assignments whose junctions are all expressible (enumerated in full;
    small K only)."""
    for orient in itertools.product(pool, repeat=Kx * Ky):
        D = Domain(Kx, Ky, N, orient, periodic)
        table, ok, kinds = D.links()
        if ok:
            yield D, table, kinds


# ---------------------------------------------------------------------- slot matchings
def slots(nfaces):
    return [(f, A, s) for f in range(nfaces) for A in ("X", "Y") for s in (0, 1)]


def matchings(items, allow_same_slot=True, max_links=None):
    """every partial matching of the slots (a slot may be linked to another slot or,
    if allowed, to itself)."""
    if not items or max_links == 0:
        yield []
        return
    a, rest = items[0], items[1:]
    yield from matchings(rest, allow_same_slot, max_links)
    nxt = None if max_links is None else max_links - 1
    if allow_same_slot:
        for m in matchings(rest, allow_same_slot, nxt):
            yield [(a, a)] + m
    for i, b in enumerate(rest):
        for m in matchings(rest[:i] + rest[i + 1:], allow_same_slot, nxt):
            yield [(a, b)] + m


def table_of(m, nfaces):
    ent = {}
    for a, b in m:
        rev = a[2] == b[2]
        ent[a] = (b[0], b[1], rev)
        ent[b] = (a[0], a[1], rev)
    t = {f: {} for f in range(nfaces)}
    for f in range(nfaces):
        for A in ("X", "Y"):
            l, r = ent.get((f, A, 0)), ent.get((f, A, 1))
            if l or r:
                t[f][A] = (l, r)
    return t


def link_kind(side, axis, link):
    g, B, rev = link
    return (side, B != axis, bool(rev))


def reciprocal(table):
    """the reciprocity predicate of C17's statement, for tables whose faces/axes exist"""
    for f, axes in table.items():
        for A, pair in axes.items():
            for side, link in enumerate(pair):
                if link is None:
                    continue
                g, B, rev = link
                if g not in table or B not in ("X", "Y"):
                    return False
                # the side of the neighbour that must link back
                back_side = side if rev else 1 - side
                try:
                    back = table[g][B][back_side]
                except (KeyError, IndexError):
                    return False
                if back is None or tuple(back) != (f, A, rev):
                    return False
    return True


def ref_halo(table, N, arrays, comp, f, axis, side, k, t, isvec):
    """value of the halo cell of face f on `side` of `axis` at depth k (1..), along-edge index
    t, per the statement of C05.  arrays[comp][face, yindex, xindex].  None if unlinked."""
    link = table[f].get(axis, (None, None))[side]
    if link is None:
        return None
    g, B, rev = link
    swap = B != axis
    src = OTHER[comp] if (isvec and swap) else comp
    A = arrays[src][g]
    enter_left = (side == 1) != rev
    b = (k - 1) if enter_left else (N - k)
    tt = (N - 1 - t) if (swap and not rev) else t
    idx = {B: b, OTHER[B]: tt}
    v = A[idx["Y"], idx["X"]]
    if isvec:
        if comp == axis and rev:
            v = -v
        if comp != axis and (swap and not rev):
            v = -v
    return v


def basic_edge(own, axis, side, k, t, N, rule, fv):
    """halo value on an unlinked edge: ordinary boundary rule on the face's own data.
    own[yindex, xindex]"""
    if rule == "fill":
        return fv
    if rule == "extend":
        b = 0 if side == 0 else N - 1
    else:  # periodic wrap on the face itself
        b = (N - k) % N if side == 0 else (k - 1) % N
    idx = {axis: b, OTHER[axis]: t}
    return own[idx["Y"], idx["X"]]


def ref_padded_face(table, N, arrays, comp, f, widths, rules, fvs, isvec):
    """expected padded face [y, x] with NaN in corner cells (new along both axes)."""
    (lx, hx), (ly, hy) = widths["X"], widths["Y"]
    own = arrays[comp][f]
    exp = np.full((N + ly + hy, N + lx + hx), np.nan)
    exp[ly: ly + N, lx: lx + N] = own
    for axis in ("X", "Y"):
        lo, hi = widths[axis]
        for side, w in ((0, lo), (1, hi)):
            for k in range(1, w + 1):
                for t in range(N):
                    v = ref_halo(table, N, arrays, comp, f, axis, side, k, t, isvec)
                    if v is None:
                        v = basic_edge(own, axis, side, k, t, N, rules[axis], fvs[axis])
                    if axis == "X":
                        pos = (lx - k) if side == 0 else (lx + N - 1 + k)
                        exp[ly + t, pos] = v
                    else:
                        pos = (ly - k) if side == 0 else (ly + N - 1 + k)
                        exp[pos, lx + t] = v
    return exp


def respell_flags(table, mode):
    """the reverse flag of every link spelled as bool (0), numpy.bool_ (1) or int 0/1 (2); mode 3: links and pairs as
    lists instead of tuples (a table after a JSON round trip): same table"""
    import numpy as np

    if mode % 4 == 3:
        return {f: {A: [None if l is None else [l[0], l[1], bool(l[2])] for l in pair] for A, pair in ax.items()} for f, ax in table.items()}
    conv = {0: bool, 1: np.bool_, 2: int}[mode % 4]
    return {f: {A: tuple(None if l is None else (l[0], l[1], conv(l[2])) for l in pair) for A, pair in ax.items()} for f, ax in table.items()}
