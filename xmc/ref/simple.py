"""Reference model of staggered 1-D axes on simple grids (no face connections).

Written from the documentation / property statements in terms of *coordinates*, not of the
implementation's slicing vocabulary:

  cell i of an axis with n cells spans [i, i+1];
  center_i = i+1/2 (n points)   left_i = i (n)   right_i = i+1 (n)
  outer_i  = i (n+1 points)     inner_i = i+1 (n-1 points)
"""
import itertools

import numpy as np
import xarray as xr

POS = ("center", "left", "right", "inner", "outer")
SHORT = {"center": "c", "left": "l", "right": "r", "inner": "i", "outer": "o"}
SHIFTS = tuple([("center", p) for p in POS[1:]] + [(p, "center") for p in POS[1:]])
LAYOUTS = tuple(
    ("center",) + sub for k in range(0, 5) for sub in itertools.combinations(POS[1:], k)
)
# documented default shifts (xgcm docs / Axis docstring): center prefers left, right, outer,
# inner in that order; every other position goes to center.
_PREF = {"center": ("left", "right", "outer", "inner")}


def pos_len(p, n):
    return {"center": n, "left": n, "right": n, "inner": n - 1, "outer": n + 1}[p]


def pos_points(p, n):
    return {
        "center": [i + 0.5 for i in range(n)],
        "left": [float(i) for i in range(n)],
        "right": [i + 1.0 for i in range(n)],
        "outer": [float(i) for i in range(n + 1)],
        "inner": [i + 1.0 for i in range(n - 1)],
    }[p]


def default_shift(layout, frm):
    for cand in _PREF.get(frm, ("center",)):
        if cand in layout:
            return cand
    return None


def supplied(a, k, rule, fv):
    """value at index k along the last axis of a, indices beyond the ends supplied by rule."""
    m = a.shape[-1]
    if 0 <= k < m:
        return a[..., k]
    if rule == "fill":
        return np.full(a.shape[:-1], fv, dtype=np.result_type(a.dtype, np.asarray(fv).dtype))
    if rule == "extend":
        return a[..., 0] if k < 0 else a[..., m - 1]
    if rule == "periodic":
        return a[..., k % m]
    raise ValueError(rule)


def ref_pad_last(a, lo, hi, rule, fv):
    m = a.shape[-1]
    cols = [supplied(a, k, rule, fv) for k in range(-lo, m + hi)]
    if not cols:
        return np.zeros(a.shape[:-1] + (0,), dtype=a.dtype)
    return np.stack(cols, axis=-1)


def ref_pad(a, axis, lo, hi, rule, fv):
    return np.moveaxis(ref_pad_last(np.moveaxis(a, axis, -1), lo, hi, rule, fv), -1, axis)


_OPS = {
    "diff": lambda l, r: r - l,
    "interp": lambda l, r: 0.5 * (l + r),
    "min": lambda l, r: np.minimum(l, r),
    "max": lambda l, r: np.maximum(l, r),
}


def ref_stencil(a, fr, to, n, op, rule, fv):
    """two-point stencil along the last axis of a (data at position fr) to position to."""
    xin = pos_points(fr, n)
    xout = pos_points(to, n)
    assert a.shape[-1] == len(xin)
    f = _OPS[op]
    out = []
    for xt in xout:
        k = int(round(xt - 0.5 - xin[0]))  # index of the input point at xt-1/2
        out.append(f(supplied(a, k, rule, fv), supplied(a, k + 1, rule, fv)))
    if not out:
        return np.zeros(a.shape[:-1] + (0,))
    return np.stack(out, axis=-1)


def ref_cumsum(a, fr, to, n, rule, fv):
    """running sum: value at x_t = sum of inputs with x < x_t.  Targets whose first point lies
    before the first input get that leading value from the boundary rule applied to the
    running-sum array R (R_j = a_0+..+a_j): fill value / nearest (R_0) / wrap (R_last)."""
    xin = pos_points(fr, n)
    xout = pos_points(to, n)
    m = len(xin)
    R = np.cumsum(a, axis=-1)
    out = []
    for xt in xout:
        cnt = sum(1 for x in xin if x < xt)
        if cnt > 0:
            out.append(R[..., cnt - 1])
        else:
            if rule == "fill":
                out.append(np.full(a.shape[:-1], fv, dtype=float))
            elif rule == "extend":
                # nearest value of the (trimmed) running sum
                out.append(R[..., 0])
            else:
                out.append(None)  # periodic: wraps to the last value of the padded array
    if any(o is None for o in out):
        # the padded array is the running sum restricted to the target points that have one
        vals = [o for o in out if o is not None]
        last = vals[-1] if vals else np.zeros(a.shape[:-1])
        out = [last if o is None else o for o in out]
    if not out:
        return np.zeros(a.shape[:-1] + (0,))
    return np.stack(out, axis=-1)


def dimname(ax, p):
    return f"{ax.lower()}{SHORT[p]}"


def make_ds(layouts, ns, extra=None, with_coords=True):
    """layouts: {axis: tuple of positions}; ns: {axis: n}; extra: {dim: size}"""
    coords = {}
    for ax, layout in layouts.items():
        for p in layout:
            d = dimname(ax, p)
            coords[d] = (d, np.array(pos_points(p, ns[ax])))
    for d, s in (extra or {}).items():
        coords[d] = (d, np.arange(s) * 10.0)
    ds = xr.Dataset(coords=coords)
    if not with_coords:
        ds = ds.drop_vars(list(ds.coords))
    return ds


def grid_coords(layouts):
    return {ax: {p: dimname(ax, p) for p in layout} for ax, layout in layouts.items()}
