"""Exact rational reference models for the vertical transforms (C07, C08)."""
from fractions import Fraction as F


def overlap_weights(theta, bins):
    """theta: n+1 cell-bound values; bins: strictly monotonic bin bounds (either direction).
    Returns (W, amb): W[j][i] = fraction of cell i that falls into bin j (bins in the order
    given); amb[i] = list of admissible bins for a homogeneous cell (lo == hi) lying exactly on
    an interior bin edge - the statement's 'proportion of overlap' is degenerate there and the
    oracle only demands that the cell is counted once, in the adjacent bins."""
    n, m = len(theta) - 1, len(bins) - 1
    inc = bins[1] > bins[0]
    b = list(bins) if inc else list(bins)[::-1]
    W = [[F(0)] * n for _ in range(m)]
    amb = {}
    for i in range(n):
        lo, hi = sorted((F(theta[i]), F(theta[i + 1])))
        if lo < hi:
            for j in range(m):
                ov = max(F(0), min(hi, F(b[j + 1])) - max(lo, F(b[j])))
                W[j][i] = ov / (hi - lo)
        else:
            cont = [j for j in range(m) if b[j] <= lo <= b[j + 1]]
            if len(cont) == 1:
                W[cont[0]][i] = F(1)
            elif len(cont) > 1:
                amb[i] = cont
    if not inc:
        W = W[::-1]
        amb = {i: [m - 1 - j for j in c] for i, c in amb.items()}
    return W, amb


def within_span(theta, bins):
    return min(bins) <= min(theta) and max(theta) <= max(bins)


def interp_linear(theta, level, mask_edges):
    """weights w[i] (Fractions) such that result = sum w[i]*phi[i], or None for NaN.
    theta strictly monotonic (either direction)."""
    n = len(theta)
    th = [F(t) for t in theta]
    lv = F(level)
    lo, hi = min(th), max(th)
    w = [F(0)] * n
    if lv < lo or lv > hi:
        if mask_edges:
            return None
        k = th.index(lo if lv < lo else hi)
        w[k] = F(1)
        return w
    for k in range(n - 1):
        a, b = th[k], th[k + 1]
        if min(a, b) <= lv <= max(a, b):
            f = (lv - a) / (b - a)
            w[k] += 1 - f
            w[k + 1] += f
            return w
    raise AssertionError("unreachable")
