"""xmc - bounded exhaustive exploration (model checking) of xgcm against reference models.

Importing this package bootstraps the environment for every check:
  * the numba stand-in is put first on sys.path (numba is not installed in the sandbox),
  * the tree under test (XMC_REPO, default /repo) is put on sys.path and it is asserted
    that `xgcm` was really imported from it.
"""
import os
import sys
import warnings

HERE = os.path.dirname(os.path.abspath(__file__))
VERIF = os.path.dirname(HERE)
REPO = os.path.realpath(os.environ.get("XMC_REPO", "/repo"))

_booted = False


def boot():
    global _booted
    if _booted:
        return
    stub = os.path.join(HERE, "numba_stub")
    for p in (REPO, stub):  # stub ends up first
        if p in sys.path:
            sys.path.remove(p)
        sys.path.insert(0, p)
    warnings.simplefilter("ignore")
    import xgcm  # noqa

    f = os.path.realpath(xgcm.__file__)
    if not f.startswith(REPO + os.sep):
        raise RuntimeError(f"xgcm imported from {f}, not from the tree under test {REPO}")
    import xgcm.grid  # noqa

    if xgcm.grid.numba is None:
        raise RuntimeError("numba stand-in was not picked up by xgcm.grid")
    _booted = True


boot()
