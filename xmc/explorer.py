"""Stateless choice-sequence explorer (CHESS-style; the 'scheduler' resolves ordering /
environment choices instead of thread pre-emptions).

A driver calls `choose(n, label)` at every choice point (directly, or indirectly through the
ChoiceSet classes of xmc.nondet).  `explore(run)` re-runs the driver from scratch for every
choice sequence, depth first, optionally bounded by the number of deviations from choice 0.
Replaying a prefix must meet the same choice points: a divergence is a hard harness error.
"""
import itertools
import math


class ReplayDivergence(RuntimeError):
    pass


class Chooser:
    def __init__(self, prefix=(), expect=None):
        self.prefix = list(prefix)
        self.expect = expect  # widths recorded when the prefix was first produced
        self.trace = []
        self.widths = []
        self.labels = []
        self.memo = {}

    def choose(self, n, label=None):
        i = len(self.trace)
        if i < len(self.prefix):
            c = self.prefix[i]
            if c >= n or (self.expect is not None and i < len(self.expect) and self.expect[i] != n):
                raise ReplayDivergence(f"choice point {i} ({label}) has width {n}, prefix expects {self.expect[i] if self.expect else '?'} / choice {c}")
        else:
            c = 0
        self.trace.append(c)
        self.widths.append(n)
        self.labels.append(label)
        return c


CURRENT = None


def choose(n, label=None):
    """choice point for driver code; 0 when no exploration is active"""
    if CURRENT is None or n <= 1:
        return 0
    return CURRENT.choose(n, label)


def run_with(run, prefix=(), expect=None):
    global CURRENT
    ch = Chooser(prefix, expect)
    CURRENT = ch
    try:
        out = run()
    finally:
        CURRENT = None
    return out, ch


def explore(run, bound=None, max_exec=None):
    """returns dict(outcomes={outcome: [trace,...]}, executions, choice_points, capped)"""
    outcomes = {}
    stack = [((), None)]
    n = 0
    cps = 0
    capped = False
    while stack:
        prefix, expect = stack.pop()
        out, ch = run_with(run, prefix, expect)
        n += 1
        cps += len(ch.trace)
        outcomes.setdefault(out, []).append(tuple(ch.trace))
        if max_exec is not None and n >= max_exec:
            capped = bool(stack)
            break
        for i in range(len(ch.trace) - 1, len(prefix) - 1, -1):
            used = sum(1 for c in ch.trace[:i] if c)
            for alt in range(ch.widths[i] - 1, 0, -1):
                if bound is not None and used + 1 > bound:
                    continue
                stack.append((tuple(ch.trace[:i]) + (alt,), tuple(ch.widths[: i + 1])))
    return dict(outcomes=outcomes, executions=n, choice_points=cps, capped=capped)


def nth_permutation(items, k):
    items = list(items)
    out = []
    n = len(items)
    for i in range(n, 0, -1):
        f = math.factorial(i - 1)
        j, k = divmod(k, f)
        out.append(items.pop(j))
    return out


def selftest():
    # a driver with 3 binary choice points and one ternary one reached only on a branch
    def run():
        a = choose(2, "a")
        b = choose(3, "b") if a else 0
        c = choose(2, "c")
        return (a, b, c)

    r = explore(run)
    assert r["executions"] == 2 + 3 * 2 == len(r["outcomes"]), r
    r1 = explore(run, bound=1)
    assert set(r1["outcomes"]) == {(0, 0, 0), (0, 0, 1), (1, 0, 0)}, r1
    assert [nth_permutation("abc", k) for k in range(6)] == [list(p) for p in itertools.permutations("abc")]
    # a prefix that no longer fits must be a hard error
    try:
        run_with(lambda: choose(2, "x"), prefix=(2,), expect=(3,))
    except ReplayDivergence:
        pass
    else:
        raise AssertionError("divergence not detected")
