"""For every fix: commit in /repo: reverse-apply it, run the quick check(s) that should notice, restore.
Prints one line per (commit, check): DETECTED / MISSED."""
import json, re, subprocess, sys
fixed = json.load(open('/verif/known_findings.json'))['fixed']
extra = {"C02": ["C02", "C18"], "C16": ["C16"], "C12": ["C12"], "C13": ["C13"], "C14": ["C14", "C13"], "C15": ["C15"]}
rows = []
for line in fixed:
    m = re.match(r"fixed: property=(C\d+) (\w+) (.*)", line)
    pid, h, what = m.groups()
    ids = [pid]
    for other in re.findall(r"C\d\d", what):
        if other not in ids:
            ids.append(other)
    patch = subprocess.run(["git", "-C", "/repo", "show", h], capture_output=True, text=True).stdout
    open('/tmp/_rev.diff', 'w').write(patch)
    assert subprocess.run(["git", "-C", "/repo", "diff", "--quiet"]).returncode == 0, "/repo dirty"
    r = subprocess.run(["git", "-C", "/repo", "apply", "-R", "/tmp/_rev.diff"], capture_output=True, text=True)
    if r.returncode:
        print(h, "cannot reverse-apply (later commit touches the same lines)"); continue
    try:
        for cid in ids:
            p = subprocess.run(["/venv/bin/python", "-m", "xmc.run", cid, "--tier", "quick", "--no-evidence"], cwd="/verif", capture_output=True, text=True)
            cls = re.search(r"recorded violation\(s\) in \d+ class\(es\): (.*)", p.stdout)
            print(f"{h} {cid} {'DETECTED' if p.returncode == 1 else 'MISSED rc=%d' % p.returncode} :: {what[:70]} :: {(cls.group(1)[:120] if cls else '')}", flush=True)
    finally:
        subprocess.run(["git", "-C", "/repo", "checkout", "--", "."])
