"""Rewrites the table of seeded changes in DESIGN.md (between the SEEDED markers) from seeded/*/meta.json."""
import glob, json, os, re
rows = []
for d in sorted(glob.glob('/verif/seeded/*')):
    m = json.load(open(d + '/meta.json'))
    name = os.path.basename(d)
    det = ", ".join(m.get("detected_by", [])) or "-"
    st = "neutralised by a later fix" if m.get("status") else ("confirmed" if m.get("confirmed") else "?")
    suite = "4087 passed" if "4087 passed" in m.get("suite_with_patch", "") else (m.get("suite_with_patch", "not re-run")[:30] or "not re-run")
    rows.append(f"| {name} | {m.get('what', '?')} | {m.get('needs', '?')} | {suite} | {det} | {st} |")
table = "| seeded change | what was changed | what it needs in order to manifest | pinned suite with the change | reported by (quick tier) | status |\n|---|---|---|---|---|---|\n" + "\n".join(rows)
p = '/verif/DESIGN.md'
s = open(p).read()
a, b = "<!-- SEEDED-TABLE-BEGIN -->", "<!-- SEEDED-TABLE-END -->"
if a not in s:
    s += f"\n\n### 12.5 Seeded changes written by sub-agents\n\n{a}\n{b}\n"
s = s[: s.index(a) + len(a)] + "\n" + table + "\n" + s[s.index(b):]
open(p, 'w').write(s)
print(len(rows), "rows")
