#!/bin/bash
# usage: tools/try_revert.sh <repo-commit> <ID>...   reverse-applies one fix commit to /repo, runs quick checks, restores
c=$1; shift
git -C /repo show $c > /tmp/_rev.diff
cd /repo && git diff --quiet || { echo "/repo dirty"; exit 2; }
git apply -R /tmp/_rev.diff || { echo "cannot reverse-apply"; exit 2; }
cd /verif
for id in "$@"; do
  out=$(/venv/bin/python -m xmc.run $id --tier ${TIER:-quick} --no-evidence 2>&1); rc=$?
  echo "== revert $c: $id rc=$rc"; echo "$out" | grep -E "VIOLATION|HARNESS|recorded violation" | cut -c1-400
done
git -C /repo checkout -- .
