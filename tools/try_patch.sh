#!/bin/bash
# usage: tools/try_patch.sh <patch.diff> <ID> [<ID> ...]   applies to /repo, runs quick checks (no evidence), reverts
set -u
patch=$1; shift
cd /repo || exit 2
if ! git diff --quiet; then echo "/repo dirty, abort"; exit 2; fi
git apply "$patch" || { echo "patch does not apply"; exit 2; }
cd /verif
for id in "$@"; do
  out=$(/venv/bin/python -m xmc.run $id --tier ${TIER:-quick} --no-evidence 2>&1); rc=$?
  echo "== $id rc=$rc"; echo "$out" | grep -E "VIOLATION|KNOWN-FINDING|HARNESS|recorded violation|first counterexample" | cut -c1-600
done
git -C /repo checkout -- . 
