"""Detection matrix: every seeded patch x every quick check, on a scratch worktree through XMC_REPO
(never touches /repo).  usage: seed_matrix.py [names...]  (default: all of /verif/seeded)"""
import json, os, re, subprocess, sys
WT = "/tmp/wt/matrix"
names = sys.argv[1:] or sorted(os.listdir("/verif/seeded"))
if not os.path.isdir(WT):
    subprocess.run(["git", "-C", "/repo", "worktree", "add", "-q", "--detach", WT, "HEAD"], check=True)
env = dict(os.environ, XMC_REPO=WT)
for name in names:
    d = f"/verif/seeded/{name}"
    meta = json.load(open(f"{d}/meta.json"))
    subprocess.run("git checkout -q -- . && git clean -fdq", shell=True, cwd=WT)
    if subprocess.run(["git", "apply", f"{d}/patch.diff"], cwd=WT).returncode:
        print(name, "patch does not apply"); continue
    row = {}
    for i in range(1, 21):
        cid = f"C{i:02d}"
        p = subprocess.run(["/venv/bin/python", "-m", "xmc.run", cid, "--tier", "quick", "--no-evidence"], cwd="/verif", env=env, capture_output=True, text=True)
        cls = re.search(r"recorded violation\(s\) in \d+ class\(es\): (.*)", p.stdout)
        row[cid] = dict(rc=p.returncode, classes=(cls.group(1)[:300] if cls else ""))
    meta = json.load(open(f"{d}/meta.json"))
    meta["checks"] = row
    meta["detected_by"] = [c for c, r in row.items() if r["rc"] == 1]
    meta["harness_errors"] = [c for c, r in row.items() if r["rc"] == 2]
    json.dump(meta, open(f"{d}/meta.json", "w"), indent=1)
    print(name, "detected by", meta["detected_by"], "harness errors", meta["harness_errors"], flush=True)
subprocess.run("git checkout -q -- .", shell=True, cwd=WT)
