"""Detection matrix: every seeded patch x every quick check, on a scratch worktree through XMC_REPO
(never touches /repo).  usage: seed_matrix.py [names...]  (default: all of /verif/seeded)"""
import json, os, re, subprocess, sys
WT = "/tmp/wt/matrix"
names = [a for a in sys.argv[1:] if not a.startswith("--")] or sorted(os.listdir("/verif/seeded"))
if os.path.isdir(WT):
    subprocess.run(["git", "-C", "/repo", "worktree", "remove", "--force", WT])
subprocess.run(["git", "-C", "/repo", "worktree", "add", "-q", "--detach", WT, "HEAD"], check=True)
env = dict(os.environ, XMC_REPO=WT)
for name in names:
    d = f"/verif/seeded/{name}"
    meta = json.load(open(f"{d}/meta.json"))
    subprocess.run("git checkout -q -- . && git clean -fdq", shell=True, cwd=WT)
    if subprocess.run(["git", "apply", f"{d}/patch.diff"], cwd=WT).returncode:
        print(name, "patch does not apply"); continue
    row = dict(meta.get("checks", {}))
    touched = set(re.findall(r"^\+\+\+ b/xgcm/(\w+)\.py", open(f"{d}/patch.diff").read(), re.M))
    REL = {"padding": "C02 C03 C04 C05 C11 C12 C13 C18", "grid_ufunc": "C01 C02 C06 C11 C13 C15 C18", "grid": "C01 C02 C09 C10 C16 C18 C20",
           "transform": "C07 C08 C13 C18 C20", "metrics": "C10 C12 C16", "comodo": "C14 C12 C13", "sgrid": "C14 C12 C13", "metadata_parsers": "C14 C12 C13",
           "gridops": "C01 C06 C09 C18", "axis": "C01 C02 C20"}
    ids = sorted({c for t in touched for c in REL.get(t, "").split()} | {meta["property"]}) if "--all" not in sys.argv else [f"C{i:02d}" for i in range(1, 21)]
    if "--own" in sys.argv:
        ids = [meta["property"]]
    for cid in ids:
        p = subprocess.run(["/venv/bin/python", "-m", "xmc.run", cid, "--tier", "quick", "--no-evidence"], cwd="/verif", env=env, capture_output=True, text=True)
        cls = re.search(r"recorded violation\(s\) in \d+ class\(es\): (.*)", p.stdout)
        row[cid] = dict(rc=p.returncode, classes=(cls.group(1)[:300] if cls else ""))
    meta = json.load(open(f"{d}/meta.json"))
    meta["checks"] = row
    meta["detected_by"] = [c for c, r in row.items() if r["rc"] == 1]
    meta["harness_errors"] = [c for c, r in row.items() if r["rc"] == 2]
    json.dump(meta, open(f"{d}/meta.json", "w"), indent=1)
    print(name, "detected by", meta["detected_by"], "harness errors", meta["harness_errors"], flush=True)
subprocess.run("git checkout -q -- .", shell=True, cwd=WT)
