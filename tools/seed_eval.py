"""Confirm a sub-agent's mutant and run our checks against it.

usage: seed_eval.py <PID> <m1|m2> [--suite] [--all] [--checks C01,C02]
  1. in the scratch worktree /tmp/wt/<PID>: clean, demo passes; apply diff, demo fails;
     optionally the whole test suite passes with the diff; clean again.
  2. apply the diff to /repo, run the quick check of <PID> (or --checks / --all), restore /repo.
  3. write /verif/seeded/<PID>-<m>/{patch.diff, demo.py, meta.json}
"""
import json
import os
import re
import shutil
import subprocess
import sys

pid, mid = sys.argv[1], sys.argv[2]
opts = sys.argv[3:]
root = os.environ.get("SEED_ROOT", "/tmp/wt")
prefix = os.environ.get("SEED_PREFIX", "")
wt = f"{root}/{pid}"
diff = f"{wt}/out/{mid}.diff"
demo = f"{wt}/out/{mid}_demo.py"
env = dict(os.environ, PYTHONPATH=f"/tmp/numba_stub:{wt}")


def sh(cmd, cwd=None, env=None, timeout=3600):
    return subprocess.run(cmd, shell=isinstance(cmd, str), cwd=cwd, env=env, capture_output=True, text=True, timeout=timeout)


def demo_rc():
    return sh(["/venv/bin/python", demo], cwd=wt, env=env).returncode


meta = dict(property=pid, mutant=mid, ran=[])
sh("git checkout -- . && git status --short | grep -v '^??' ", cwd=wt)
rc_clean = demo_rc()
a = sh(["git", "apply", diff], cwd=wt)
if a.returncode:
    print("diff does not apply:", a.stderr[:300]); sys.exit(2)
rc_mut = demo_rc()
meta["demo_clean_rc"], meta["demo_mutant_rc"] = rc_clean, rc_mut
meta["ran"].append(f"cd {wt} && PYTHONPATH=/tmp/numba_stub:{wt} /venv/bin/python out/{mid}_demo.py  (clean: rc={rc_clean}; with patch: rc={rc_mut})")
if "--suite" in opts:
    p = sh("/venv/bin/python -m pytest -q -p no:cacheprovider -n 10 xgcm/test 2>&1 | tail -1", cwd=wt, env=dict(os.environ, PYTHONPATH=wt))
    meta["suite_with_patch"] = p.stdout.strip()
    meta["ran"].append(f"cd {wt} && PYTHONPATH={wt} /venv/bin/python -m pytest -q -p no:cacheprovider -n 10 xgcm/test  -> {p.stdout.strip()}")
sh("git checkout -- .", cwd=wt)
ok_demo = rc_clean == 0 and rc_mut != 0
print(f"{pid}-{prefix}{mid}: demo clean rc={rc_clean}, with patch rc={rc_mut}; suite: {meta.get('suite_with_patch', 'not run')}")

# --- our checks
ids = [pid]
for o in opts:
    if o.startswith("--checks"):
        ids = opts[opts.index(o) + 1].split(",")
if "--all" in opts:
    ids = [f"C{i:02d}" for i in range(1, 21)]
# the checks run against the scratch worktree itself (XMC_REPO), /repo is never touched
a = sh(["git", "apply", diff], cwd=wt)
if a.returncode:
    print("diff does not apply:", a.stderr[:300]); sys.exit(2)
det = {}
cenv = dict(os.environ, XMC_REPO=wt)
try:
    for cid in ids:
        p = sh(["/venv/bin/python", "-m", "xmc.run", cid, "--tier", os.environ.get("TIER", "quick"), "--no-evidence"], cwd="/verif", env=cenv)
        cls = re.search(r"recorded violation\(s\) in \d+ class\(es\): (.*)", p.stdout)
        det[cid] = dict(rc=p.returncode, classes=(cls.group(1)[:400] if cls else ""))
        print(f"   {cid}: rc={p.returncode} {'DETECTED' if p.returncode == 1 else 'silent' if p.returncode == 0 else 'HARNESS-ERROR'} {det[cid]['classes'][:200]}")
        if p.returncode == 2:
            print(p.stdout[-1500:])
finally:
    sh("git checkout -- .", cwd=wt)
meta["checks"] = det
meta["detected_by"] = [c for c, d in det.items() if d["rc"] == 1]
meta["confirmed"] = ok_demo
out = f"/verif/seeded/{pid}-{prefix}{mid}"
os.makedirs(out, exist_ok=True)
shutil.copy(diff, f"{out}/patch.diff")
shutil.copy(demo, f"{out}/demo.py")
old = {}
if os.path.exists(f"{out}/meta.json"):
    old = json.load(open(f"{out}/meta.json"))
for k in ("suite_with_patch", "needs", "what"):
    if k in old and k not in meta:
        meta[k] = old[k]
if "checks" in old:
    merged = dict(old["checks"]); merged.update(det); meta["checks"] = merged
    meta["detected_by"] = [c for c, d in merged.items() if d["rc"] == 1]
notes_p = f"{wt}/out/notes.json"
if os.path.exists(notes_p):
    try:
        n = json.load(open(notes_p)).get(mid, {})
        for k in ("what", "needs"):
            if n.get(k) and k not in meta:
                meta[k] = n[k]
        if n.get("suite") and "suite_with_patch" not in meta:
            meta["suite_by_author"] = n["suite"]
    except Exception as e:
        print("notes.json unreadable:", e)
if prefix and "origin" not in meta:
    meta["origin"] = f"round {prefix[1:]}: sub-agent given the property record, the list of earlier mutants for it and a scratch worktree"
json.dump(meta, open(f"{out}/meta.json", "w"), indent=1)
