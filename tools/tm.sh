#!/bin/bash
# usage: tools/tm.sh <seeded-name> [<ID> ...]   private scratch worktree + XMC_REPO; never touches /repo
name=$1; shift
ids=${@:-${name%%-*}}
wt=/tmp/wt/tm-$name-$$
mkdir -p /tmp/wt
git -C /repo worktree add -q --detach $wt HEAD || exit 2
trap 'git -C /repo worktree remove --force $wt' EXIT
git -C $wt apply /verif/seeded/$name/patch.diff || { echo "patch does not apply"; exit 2; }
cd /verif
for id in $ids; do
  out=$(XMC_REPO=$wt /venv/bin/python -m xmc.run $id --tier ${TIER:-quick} --no-evidence 2>&1); rc=$?
  echo "== $name $id rc=$rc"; echo "$out" | grep -E "VIOLATION|KNOWN-FINDING|HARNESS|recorded violation|first counterexample|Traceback|Error" | cut -c1-500 | head -8
done
