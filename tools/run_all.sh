#!/bin/bash
# usage: tools/run_all.sh [tier] [ids...]  - runs every check, prints one summary line each
tier=${1:-quick}; shift
ids=${@:-C01 C02 C03 C04 C05 C06 C07 C08 C09 C10 C11 C12 C13 C14 C15 C16 C17 C18 C19 C20}
cd /verif
for id in $ids; do
  s=$(date +%s)
  out=$(/venv/bin/python -m xmc.run $id --tier $tier 2>&1); rc=$?
  e=$(date +%s)
  echo "$id rc=$rc $((e-s))s :: $(echo "$out" | tail -1 | cut -c1-220)"
  if [ $rc -ne 0 ]; then echo "$out" | grep -E "VIOLATION|HARNESS|first counterexample" | cut -c1-500; fi
done
