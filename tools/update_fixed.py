"""Rewrites the 'fixed' list of known_findings.json from /repo's fix: commits (hash + what failed)."""
import json, subprocess
WHAT = {
 "partial Grid-level boundary": ("C02", "Grid(boundary={'X': 'periodic'}) (partial Grid-level mapping) raised KeyError in the constructor; and (C18) the constructor completed the caller's boundary mapping in place"),
 "pad a vector component on a grid without": ("C04", "Grid.diff({'X': u}, 'X', other_component={'Y': v}) on a grid without face connections raised TypeError in _pad_basic"),
 "do not empty the caller": ("C18", "padding a vector on a face-connected grid emptied the caller's other_component dictionary (popitem), e.g. sequence [vec_diff_x, vec_diff_x] of the 'faces' scenario"),
 "set_metrics registers every variable": ("C16", "set_metrics(key, [a, b]) on an axis set that already has metrics registered only the last element; an occupied slot earlier in the list was not refused"),
 "interp_like interpolates": ("C16", "get_metric interpolation (interp_like) went to the default shift of the metric's position instead of the array's position (center metric, array on outer -> result on left); also C10"),
 "anonymous target_data": ("C18", "Grid.transform with an unnamed target_data set target_data.name on the caller's array"),
 "pass transform's suffix": ("C08", "Grid.transform ignored `suffix` (result kept the bare input name)"),
 "dimensionality, not the length": ("C13", "conservative transform rejected any DataArray target whose target_dim name is longer than one character"),
 "decreasing bins reverses": ("C07", "interp_1d_conservative with decreasing bins and more than one column reversed the column axis instead of the bin axis"),
 "grid's axis order, not in set order": ("C12", "corner cells of a 2-D halo on a face-connected grid changed with PYTHONHASHSEED and with the listing order of the links (axes to pad collected through set())"),
 "signatures structurally": ("C12", "equivalent() of multi-axis signatures depended on the hash seed (zip over two sets); C13/C15: axis names such as 't', 'e', 'r', 'ce' corrupted the position words during textual replacement, so Grid.diff failed for such axes"),
 "metadata axes in a deterministic": ("C12", "axis order of a Grid built from COMODO/SGRID metadata changed with PYTHONHASHSEED"),
 "metric axis combinations in the order": ("C12", "which metric product get_metric chose for three axes changed with PYTHONHASHSEED"),
 "dask-backed vector components": ("C06", "any dask-backed vector input on a face-connected grid raised AttributeError: 'dict' object has no attribute 'variable'"),
 "homogeneous cell on a bin edge once": ("C07", "a cell with equal bounds lying exactly on an interior bin edge was added to both adjacent bins (column total not conserved), e.g. theta=[1,1], bins=[0,1,2]"),
 "metric product from the variable at the array": ("C10", "with X metrics at center and left and a Y metric only at left, get_metric(array at (center,center), ('X','Y')) used the interpolated left X metric although one sits at center (last tried combination won)"),
 "single axis given as a plain string": ("C13", "integrate(da, 'depth') iterated the axis name letter by letter"),
 "juxtaposed name:position pairs": ("C15", "'(X:centerY:left)->()' was accepted as a valid signature"),
 "instead of deleting position words": ("C13", "dummy/axis names containing a position word ('xleft', 'center1') were mangled by the signature parsers; also C15"),
 "SGRID node dimensions": ("C14", "SGRID datasets whose node dimension name is a substring of a cell dimension name or of '(padding' (node 'x', cell 'xc') failed to parse; also C13"),
 "fill_value bound when a grid ufunc is defined": ("C11", "as_grid_ufunc(..., fill_value=5)(f) padded with 0: the definition-time fill_value was ignored"),
 "boundary_width given when a grid ufunc is called": ("C11", "a call-time boundary_width raised TypeError (passed twice) instead of overriding the bound one"),
 "per-call fill value given as text": ("C20", "a per-call fill_value given as text that spells a number ('1', 'nan', {'X': '1'}) was parsed by numpy and answered with an array instead of being refused (the constructor refuses it)"),
 "slice the cumsum input through a mapping": ("C13", "Grid.cumsum (and cumint) with a shift that trims the input (center->left/inner, right/outer->center) along a dimension called 'drop' raised ValueError 'conflicting sizes': data.isel(**{dim: ...}) turned the dimension name into isel's own keyword"),
 "swap dimension names across an axis-swapping face link": ("C13", "diff / interp / pad across an axis-swapping face link raised ValueError 'conflicting sizes' when the array has a dimension called <dimension>+'dummy' (e.g. horizontal dimensions 'x' and 'xdummy'): the swap went through a temporary dimension of that name"),
 "rename the cumsum dimension through a mapping": ("C13", "Grid.cumsum / cumint along a dimension called 'new_name_or_name_dict' returned the result on the old dimension and renamed the array instead (padded.rename(**{dim: new}) turned the dimension name into rename's own keyword)"),
 "one-shot iterable": ("C01", "Grid.diff / interp / min / max with the axis names given as an iterator, generator or map object (e.g. grid.diff(da, iter(['X']))) returned the input unchanged: the names were walked twice and the second walk was empty"),
 "narrower than its halo": ("C06", "apply_as_grid_ufunc(map_overlap=True) with a boundary width >= 2 on data with a chunk smaller than the width along the operated axis (e.g. length 4 chunked (1,1,2), width (2,0)) raised ValueError 'adjust_chunks specified with N blocks'"),
 "temporary dimension names": ("C13", "transform failed or lost a coordinate when the data had a dimension named 'temp_dim_target', 'temp_unique' or 'remapped'"),
}
log = subprocess.run(["git", "-C", "/repo", "log", "--reverse", "--format=%h %s", "7137820..HEAD"], capture_output=True, text=True).stdout.splitlines()
fixed = []
for line in log:
    h, subj = line.split(" ", 1)
    if not subj.startswith("fix:"):
        continue
    m = [v for k, v in WHAT.items() if k in subj]
    assert len(m) == 1, (subj, m)
    fixed.append(f"fixed: property={m[0][0]} {h} {m[0][1]}")
d = json.load(open("/verif/known_findings.json"))
d["fixed"] = fixed
json.dump(d, open("/verif/known_findings.json", "w"), indent=1)
print(len(fixed), "fixed entries")
