"""Confirm that the whole pinned suite passes with each seeded patch (in its scratch worktree)."""
import json, os, subprocess, sys
for name in sys.argv[1:]:
    pid, mid = name.split("-")
    wt = f"/tmp/wt8/{pid}" if mid.startswith("r8") else f"/tmp/wt7/{pid}" if mid.startswith("r7") else f"/tmp/wt6/{pid}" if mid.startswith("r6") else f"/tmp/wt5/{pid}" if mid.startswith("r5") else f"/tmp/wt4/{pid}" if mid.startswith("r4") else f"/tmp/wt3/{pid}" if mid.startswith("r3") else f"/tmp/wt2/{pid}" if mid.startswith("r2") else f"/tmp/wt/{pid}"
    meta_p = f"/verif/seeded/{name}/meta.json"
    meta = json.load(open(meta_p))
    if meta.get("suite_with_patch"):
        print(name, "already:", meta["suite_with_patch"]); continue
    subprocess.run("git checkout -- .", shell=True, cwd=wt)
    a = subprocess.run(["git", "apply", f"/verif/seeded/{name}/patch.diff"], cwd=wt)
    p = subprocess.run("/venv/bin/python -m pytest -q -p no:cacheprovider -n 5 xgcm/test 2>&1 | tail -1", shell=True, cwd=wt,
                       env=dict(os.environ, PYTHONPATH=wt), capture_output=True, text=True)
    subprocess.run("git checkout -- .", shell=True, cwd=wt)
    meta["suite_with_patch"] = p.stdout.strip()
    meta.setdefault("ran", []).append(f"cd {wt} && git apply patch.diff && PYTHONPATH={wt} /venv/bin/python -m pytest -q -p no:cacheprovider -n 5 xgcm/test -> {p.stdout.strip()}")
    json.dump(meta, open(meta_p, "w"), indent=1)
    print(name, p.stdout.strip(), flush=True)
