"""Regenerates /verif/MANIFEST.json from the check modules that exist (keeps it valid at all times)."""
import importlib, json, os, sys
HERE = os.path.dirname(os.path.abspath(__file__)); VERIF = os.path.dirname(HERE)
sys.path.insert(0, VERIF)
import xmc  # noqa

PY = "/venv/bin/python"
props = [json.loads(l) for l in open(os.path.join(VERIF, "properties.jsonl"))]
LEVEL_TEXT = {}
checks, na = [], []
for p in props:
    pid = p["id"]
    path = os.path.join(VERIF, "xmc", "checks", pid.lower() + ".py")
    if not os.path.exists(path):
        na.append(dict(property_id=pid, reason="check not built yet in this revision (planned, see DESIGN.md section 6)"))
        continue
    m = importlib.import_module("xmc.checks." + pid.lower())
    checks.append(dict(
        property_id=pid,
        quick_cmd=f"{PY} -m xmc.run {pid} --tier quick",
        thorough_cmd=f"{PY} -m xmc.run {pid} --tier thorough",
        evidence_file=f"/verif/evidence/{pid}.json",
        replay_cmd_template=f"{PY} -m xmc.run {pid} --replay {{path}}",
        engine="xmc",
        level_claimed=dict(category=m.LEVEL, text=getattr(m, "LEVEL_TEXT", m.__doc__.strip().split("\n\n", 1)[-1].strip()), design_ref="DESIGN.md section 6 " + pid),
        level_note="; ".join(m.ASSUMPTIONS),
        technique=m.TECHNIQUE,
    ))
man = dict(
    version=1,
    setup_cmd=f"{PY} -m xmc.selftest",
    hooks=dict(guard="XGCM_VERIF", enable="no source hooks: checks import xgcm from /repo's working tree (XMC_REPO overrides) and own nondeterminism by rebinding module globals from outside",
               baseline_off_cmd="cd /repo && /venv/bin/python -m pytest -ra -q -p no:cacheprovider --timeout=900 --continue-on-collection-errors",
               source_commits=[], add_only=True),
    engines=[dict(name="xmc", path="/verif/xmc", serves_properties=[c["property_id"] for c in checks],
                  kind_free_text="hand-written bounded exhaustive explorer for Python: choice-sequence DFS with deviation bounds, explicit-state BFS over real API calls, set-iteration-order and dask task-order schedulers; every execution runs the real xgcm code and is compared with a small reference model")],
    checks=checks,
    not_applicable=na,
    notes="All checks run the real xgcm from /repo (no build step). known_findings.json lists genuine defects recorded or fixed; evidence/<id>.json is rewritten by every run.",
)
json.dump(man, open(os.path.join(VERIF, "MANIFEST.json"), "w"), indent=1)
import subprocess
subprocess.run(["python3-vt", "-c", "import json,jsonschema;jsonschema.validate(json.load(open('/verif/MANIFEST.json')),json.load(open('/root/.vp/MANIFEST.schema.json')));print('manifest schema ok')"], check=True)
print("MANIFEST.json:", len(checks), "checks,", len(na), "not yet claimed")
